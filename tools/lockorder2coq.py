#!/usr/bin/env python3
"""lockorder2coq: regenerate coq/Gen/LockOrder.v from /repo's working tree: for every non-test
function that takes the write connection, the bookie lock or a per-actor bookkeeping lock, the
sequence of acquire / release steps in program-text order.

Lock classes (what is recognised):
  0  the write connection (`.write_priority()`, `.write_normal()`, `.write_low()` of the pool;
     taking it includes the queue, the guard and -- lock 1 -- the write permit)
  2  the bookie (`bookie.write/read/blocking_write/blocking_read(..)`)
  10 a per-actor bookkeeping lock (`booked*.write/read/blocking_*/write_owned/read_owned(..)`,
     `.booked().write(..)`); a second one taken while one is held gets 11, 12, ..

How long a guard lives (Rust's rules, approximated textually -- the approximation is part of the
trusted base and errs on the side of "held longer"):
  * the call is continued by a method chain (`.ensure(..)`, `.get(..)`, `.contains(..)` ...):
    the guard is a temporary of that statement -> released at once;
  * the guard is the value of a `let` statement (also through `match`/`if`/block tails):
    held until the block containing the `let` ends, or until `drop(<name>)`;
  * anything else: fail closed.
"""
import re, sys, os
REPO = os.environ.get("VERIF_REPO", "/repo")

FILES_GLOB = ["crates/klukai-agent/src", "crates/klukai-types/src", "crates/klukai/src"]

CONN = re.compile(r"\.\s*write_(priority|normal|low)\s*\(\s*\)")
BOOKIE = re.compile(r"\bbookie\s*\.\s*(write|read|blocking_write|blocking_read)\b\s*(::\s*<[^>]*>)?\s*\(")
BOOKED = re.compile(r"(\bbooked\w*|\.\s*booked\s*\(\s*\))\s*\.\s*(write|read|blocking_write|blocking_read|write_owned|read_owned)\b\s*(::\s*<[^>]*>)?\s*\(")


CHARLIT = re.compile(r"'(\\.[^']*|[^'\\])'")
RAWSTR = re.compile(r'r(#*)"')


def strip(src):
    """blank out comments, string and char literals (same length, newlines kept)"""
    out = list(src)
    i, n = 0, len(src)
    def blank(a, b):
        for k in range(a, b):
            if out[k] != "\n":
                out[k] = " "
    while i < n:
        c = src[i]
        if src.startswith("//", i):
            j = src.find("\n", i)
            j = n if j < 0 else j
            blank(i, j); i = j
        elif src.startswith("/*", i):
            depth, j = 1, i + 2
            while j < n and depth:
                if src.startswith("/*", j): depth += 1; j += 2
                elif src.startswith("*/", j): depth -= 1; j += 2
                else: j += 1
            blank(i, j); i = j
        elif c == "r" and re.match(r'r#*"', src[i:i + 8]) and (i == 0 or not (src[i - 1].isalnum() or src[i - 1] == "_")):
            m = RAWSTR.match(src, i)
            end = '"' + m.group(1)
            j = src.find(end, i + len(m.group(0)))
            j = n if j < 0 else j + len(end)
            blank(i + 1, j); i = j
        elif c == '"':
            j = i + 1
            while j < n and src[j] != '"':
                j += 2 if src[j] == "\\" else 1
            blank(i + 1, min(j, n)); i = j + 1
        elif c == "'":
            m = CHARLIT.match(src, i)
            if m:
                blank(i + 1, i + len(m.group(0)) - 1); i += len(m.group(0))
            else:
                i += 1            # a lifetime
        else:
            i += 1
    return "".join(out)


def match_close(s, i, op, cl):
    """s[i] == op: index of the matching cl"""
    d = 0
    for j in range(i, len(s)):
        if s[j] == op: d += 1
        elif s[j] == cl:
            d -= 1
            if d == 0:
                return j
    raise ValueError("unbalanced %s at %d" % (op, i))


def test_regions(s):
    """spans of `#[cfg(test)] mod x { .. }` and of `#[test]`/`#[tokio::test..]` functions"""
    spans = []
    for m in re.finditer(r"#\[cfg\(test\)\]\s*(pub\s+)?mod\s+\w+\s*\{", s):
        spans.append((m.start(), match_close(s, m.end() - 1, "{", "}")))
    return spans


def functions(s):
    """(name, body_start, body_end) of every fn with a body, innermost functions listed separately"""
    res = []
    for m in re.finditer(r"\bfn\s+(\w+)", s):
        # find the body's opening brace: first `{` at paren/angle depth 0 after the signature, or `;`
        j = m.end()
        dp = 0
        while j < len(s):
            c = s[j]
            if c in "([": dp += 1
            elif c in ")]": dp -= 1
            elif c == ";" and dp == 0:
                j = -1; break
            elif c == "{" and dp == 0:
                break
            j += 1
        if j < 0 or j >= len(s):
            continue
        res.append((m.group(1), j, match_close(s, j, "{", "}")))
    return res


def block_start(s, pos, lo):
    """index of the `{` of the innermost block containing pos (not before lo)"""
    d = 0
    j = pos - 1
    while j >= lo:
        if s[j] == "}": d += 1
        elif s[j] == "{":
            if d == 0:
                return j
            d -= 1
        j -= 1
    return lo


def stmt_start(s, pos, lo):
    """start of the statement containing pos inside its innermost block: after the previous
    `;`, `{` or `}` at nesting 0 (going backwards, skipping balanced () [] {})"""
    d = 0
    j = pos - 1
    while j >= lo:
        c = s[j]
        if c in ")]}":
            if c == "}" and d == 0:
                # a `}` at depth 0 ends a previous statement only if it is not part of this
                # expression (`match x { .. }.foo`): treat as boundary
                return j + 1
            d += 1
        elif c in "([{":
            if d == 0:
                return j + 1
            d -= 1
        elif c == ";" and d == 0:
            return j + 1
        j -= 1
    return lo


def after_call(s, close):
    """position after `)`, `.await`, `?` following the call"""
    j = close + 1
    while True:
        m = re.match(r"\s*\.\s*await\b", s[j:])
        if m:
            j += len(m.group(0)); continue
        m = re.match(r"\s*\?", s[j:])
        if m:
            j += len(m.group(0)); continue
        break
    return j


def guard_life(s, site, call_close, fn_lo, fn_hi):
    """-> ('temp', None) | ('let', (release_pos, name))"""
    j = after_call(s, call_close)
    pos = site
    for _ in range(12):
        rest = s[j:].lstrip()
        nxt = rest[:1]
        if nxt == "." :
            return ("temp", None)
        st = stmt_start(s, pos, fn_lo)
        head = s[st:pos].lstrip()
        if re.match(r"(let|if\s+let|while\s+let)\b", head) and nxt in (";", "{", ")", ","):
            if head.startswith("let"):
                m = re.match(r"let\s+(mut\s+)?(\w+)", head)
                name = m.group(2) if m else None
                blk = block_start(s, st, fn_lo)
                end = match_close(s, blk, "{", "}") if s[blk] == "{" else fn_hi
                rel = end
                if name:
                    dm = re.search(r"\bdrop\s*\(\s*%s\s*\)" % re.escape(name), s[j:end])
                    if dm:
                        rel = j + dm.start()
                return ("let", (rel, name, st))
            # `if let Some(x) = lock(..)` : the guard lives for the whole if/else
            blk_open = s.find("{", j)
            end = match_close(s, blk_open, "{", "}")
            return ("let", (end, None, st))
        if nxt == "}":
            # the value of a block: go on from the block expression
            blk = block_start(s, pos, fn_lo)
            close = match_close(s, blk, "{", "}")
            # `if c { .. } else { .. }`: the value belongs to the whole if/else expression
            while True:
                m = re.match(r"\s*else\s*(if\b[^{]*)?\{", s[close + 1:])
                if not m:
                    break
                close = match_close(s, close + 1 + len(m.group(0)) - 1, "{", "}")
            while True:
                m = re.search(r"\}\s*else\s*(if\b[^{}]*)?$", s[fn_lo:blk])
                if not m:
                    break
                prev_close = fn_lo + m.start()
                # opening brace of the block that ends at prev_close
                d = 0
                k = prev_close
                while k >= fn_lo:
                    if s[k] == "}": d += 1
                    elif s[k] == "{":
                        d -= 1
                        if d == 0:
                            break
                    k -= 1
                blk = k
            pos = blk
            j = after_call(s, close)
            continue
        if nxt == "," or nxt == ")":
            # a match arm value `=> lock(..),` or a call argument: go out to the enclosing brace/paren
            st2 = stmt_start(s, pos, fn_lo)
            opener = st2 - 1
            if opener >= fn_lo and s[opener] == "{":
                close = match_close(s, opener, "{", "}")
                pos = opener; j = after_call(s, close); continue
            if opener >= fn_lo and s[opener] == "(":
                return ("temp", None)       # an argument: lives for the call statement
        if nxt == "{" and re.search(r"\bmatch\s*$", s[st:pos]) is None and re.search(r"\bmatch\b", s[st:pos]):
            # `let x = match lock(..) {`: scrutinee temporary lives for the match = the let statement
            pass
        if re.search(r"\bmatch\s+[\w\.\(\)\s]*$", s[st:pos] ) and nxt == "{":
            # scrutinee of a match: find what the match is the value of
            mpos = st + re.search(r"\bmatch\b", s[st:pos]).start()
            head2 = s[st:mpos].lstrip()
            m = re.match(r"let\s+(mut\s+)?(\w+)\s*(:[^=]*)?=\s*$", head2)
            if m:
                blk = block_start(s, st, fn_lo)
                end = match_close(s, blk, "{", "}") if s[blk] == "{" else fn_hi
                return ("let", (end, m.group(2), st))
        raise ValueError("guard life not understood near: %r" % s[max(fn_lo, site - 80):j + 40])
    raise ValueError("guard life: too deep near %r" % s[site - 60:site + 60])


def scan_file(path):
    src = open(path, encoding="utf-8").read()
    if not (CONN.search(src) or BOOKIE.search(src) or BOOKED.search(src)):
        return {}, src          # (a site inside a comment or string only is dropped by strip below anyway)
    s = strip(src)
    tests = test_regions(s)
    fns = functions(s)
    out = []
    sites = []
    for rx, kind in ((CONN, 0), (BOOKIE, 2), (BOOKED, 10)):
        for m in rx.finditer(s):
            if any(a <= m.start() <= b for a, b in tests):
                continue
            open_paren = m.end() - 1 if kind != 0 else s.find("(", m.start())
            sites.append((m.start(), kind, match_close(s, open_paren, "(", ")")))
    sites.sort()
    for pos, kind, close in sites:
        # innermost function containing the site
        inner = [f for f in fns if f[1] < pos < f[2]]
        if not inner:
            raise ValueError("%s: lock site outside any function at %d" % (path, pos))
        f = max(inner, key=lambda f: f[1])
        # closures do not matter; nested fns do (already innermost)
        out.append((f, pos, kind, close))
    res = {}
    seen_let = set()
    for f, pos, kind, close in out:
        life = guard_life(s, pos, close, f[1], f[2])
        line = src.count("\n", 0, pos) + 1
        if life[0] == "let":
            # the branches of one `let x = if c { lock_a() } else { lock_b() }` are alternatives:
            # one acquisition
            key = (kind, life[1][2])
            if key in seen_let:
                continue
            seen_let.add(key)
        res.setdefault((f[0], f[1], f[2]), []).append((pos, kind, life, line))
    return res, s


def activity(sites):
    """sites of one function -> list of ('A'|'R', lock)"""
    evs = []
    for idx, (pos, kind, life, line) in enumerate(sites):
        if life[0] == "temp":
            evs.append((pos, 0, "A", idx)); evs.append((pos, 1, "R", idx))
        else:
            evs.append((pos, 0, "A", idx)); evs.append((life[1][0], -1, "R", -idx))
    evs.sort()
    evs = [(a, b, c, abs(d)) for a, b, c, d in evs]
    held = {}
    steps = []
    for pos, _, what, idx in evs:
        kind = sites[idx][1]
        if what == "A":
            if kind == 10:
                lock = 10
                while lock in held.values():
                    lock += 1
            else:
                lock = kind
            held[idx] = lock
            steps.append(("A", lock))
            if kind == 0:
                steps.append(("A", 1))
        else:
            lock = held.pop(idx)
            if kind == 0:
                steps.append(("R", 1))
            steps.append(("R", lock))
    return steps


def main(out):
    try:
        acts = []
        for root in FILES_GLOB:
            for dp, dn, fnames in os.walk(os.path.join(REPO, root)):
                for fn in sorted(fnames):
                    if not fn.endswith(".rs"):
                        continue
                    p = os.path.join(dp, fn)
                    rel = os.path.relpath(p, REPO)
                    if "/tests/" in rel or rel.endswith("_test.rs") or fn == "tests.rs":
                        continue
                    found, stripped = scan_file(p)
                    for (name, lo, hi), sites in sorted(found.items(), key=lambda kv: kv[0][1]):
                        acts.append((rel, name, sites, activity(sites), stripped, lo, hi))
        if not acts:
            raise ValueError("no lock sites found")
        # a function that holds a lock must not call another lock-taking function while holding it
        # (the sequences are per function: such a nesting would not be seen) -- fail closed
        lockers = {a[1] for a in acts} - {"run", "setup", "new", "start"}
        for rel, name, sites, steps, stripped, lo, hi in acts:
            for pos, kind, life, line in sites:
                if life[0] != "let":
                    continue
                span = stripped[pos:life[1][0]]
                for other in lockers:
                    if other != name and re.search(r"\b%s\s*\(" % re.escape(other), span):
                        raise ValueError("%s:%s holds a lock (line %d) while calling %s: nested lock-taking calls are not modelled" % (rel, name, line, other))
        names = {a[1] for a in acts}
        for need in ("process_multiple_changes", "process_fully_buffered_changes", "make_broadcastable_changes", "generate_sync"):
            if need not in names:
                raise ValueError("expected lock-taking function %s not found" % need)
    except Exception as e:      # fail closed
        sys.stderr.write("lockorder2coq: %s\n" % e)
        return 1
    lines = ["(* GENERATED by tools/lockorder2coq.py from /repo's working tree -- do not edit. *)",
             "From Coq Require Import List ZArith String.",
             "From Corro Require Import Model.LockSeq.",
             "Import ListNotations.", "Open Scope Z_scope.", "Open Scope string_scope.", ""]
    defs = []
    for i, (rel, name, sites, steps, _s, _lo, _hi) in enumerate(acts):
        lines.append("(* %s : %s -- lock sites at lines %s *)" % (rel, name, ", ".join("%d(%s,%s)" % (l, {0: "conn", 2: "bookie", 10: "booked"}[k], life[0]) for _, k, life, l in sites)))
        body = "; ".join(("Acq %d" if w == "A" else "Rel %d") % l for w, l in steps)
        lines.append("Definition src_act_%d : string * list lstep := (\"%s:%s\", [%s])." % (i, rel.split("/")[-1], name, body))
        defs.append("src_act_%d" % i)
    lines.append("")
    lines.append("Definition src_activities : list (string * list lstep) := [%s]." % "; ".join(defs))
    txt = "\n".join(lines) + "\n"
    if out == "-":
        sys.stdout.write(txt)
    else:
        tmp = out + ".tmp"
        open(tmp, "w").write(txt)
        if not os.path.exists(out) or open(out).read() != txt:
            os.replace(tmp, out)
        else:
            os.remove(tmp)
    return 0


if __name__ == "__main__":
    sys.exit(main(sys.argv[1] if len(sys.argv) > 1 else os.path.join(os.path.dirname(os.path.dirname(os.path.abspath(__file__))), "coq", "Gen", "LockOrder.v")))
