(* C04 — Sync requests ask for everything the peer can give and nothing it cannot.
   Model: Model/Needs.v (transcription of SyncStateV1::compute_available_needs).
   Proofs: Proofs/NeedsProofs.v. *)
From Coq Require Import List ZArith Bool Lia.
From Corro Require Import Lib.Ivl Model.Needs Proofs.NeedsProofs.
Import ListNotations.
Open Scope Z_scope.

(* every requested version range stays within the peer's advertised head, and
   nothing is ever requested for the node's own actor id *)
Theorem C04_within_head_never_self : forall us other a v,
  wf_state other -> (forall a h, In (a, h) (ss_heads us) -> 0 <= h) ->
  req_full (compute_available_needs us other) a v ->
  a <> ss_actor us /\ exists head, In (a, head) (ss_heads other) /\ 1 <= v <= head.
Proof. exact needs_within_head. Qed.
Print Assumptions C04_within_head_never_self.

(* every version the peer advertises as fully held and the node lacks (listed
   as needed, beyond its head, or actor unknown) is requested -- for any number
   of actors, any heads, any need ranges, any partial maps *)
Theorem C04_complete_full : forall us other a v,
  wf_state other -> a <> ss_actor us ->
  peer_holds other a v -> we_lack us a v ->
  req_full (compute_available_needs us other) a v.
Proof. exact needs_complete_full. Qed.
Check C04_complete_full : forall us other a v,
  wf_state other -> a <> ss_actor us ->
  (exists head, In (a, head) (ss_heads other) /\ 1 <= v <= head /\
     ~ (exists ns, zget a (ss_need other) = Some ns /\ mem v ns) /\
     ~ (exists ps, zget a (ss_partial other) = Some ps /\ exists q, In (v, q) ps)) ->
  (zget a (ss_heads us) = None \/
   (exists h, zget a (ss_heads us) = Some h /\ h < v) \/
   (exists ns, zget a (ss_need us) = Some ns /\ mem v ns)) ->
  exists l s e, In (a, l) (compute_available_needs us other) /\ In (Full s e) l /\ s <= v <= e.
Print Assumptions C04_complete_full.

(* a version the node holds partially and the peer holds fully: the requested
   sequence numbers are exactly the node's missing ones *)
Theorem C04_partial_exact : forall us other a v seqs ours q,
  wf_state other -> a <> ss_actor us ->
  zget a (ss_partial us) = Some ours -> uniq_keys ours -> In (v, seqs) ours ->
  peer_holds other a v ->
  (req_seq (compute_available_needs us other) a v q <-> mem q seqs).
Proof. exact needs_partial_held. Qed.
Print Assumptions C04_partial_exact.

Example C04_nonvacuous :
  let us := mkSstate 1 [(2, 10)] [(2, [(3, 5)])] [(2, [(7, [(0, 2)])])] in
  let other := mkSstate 9 [(2, 13)] [(2, [(4, 4)])] [(2, [(7, [(0, 0); (5, 9)])])] in
  compute_available_needs us other =
    [(2, [Full 3 3; Full 5 5; Partial 7 [(1, 2)]; Full 11 13])].
Proof. vm_compute. reflexivity. Qed.
