"""C02 — advertised sync state = exact durable summary."""
import itertools, random, re
import vlib, flow


def parse_ranges(s):
    out = []
    for x in s.split(","):
        if x:
            a, b = x.split("-")
            out.append((int(a), int(b)))
    return out


def tok_ranges(rs):
    return [str(len(rs))] + [str(x) for r in rs for x in r]


def parse_bv(txt):
    m = re.match(r"n=(\S*) m=(\S+) p=(\S*)", txt)
    n = parse_ranges(m.group(1))
    mx = -1 if m.group(2) == "-" else int(m.group(2))
    ps = []
    for p in m.group(3).split(";"):
        if p:
            v, last, rs = p.split(":")
            ps.append((int(v), int(last), parse_ranges(rs)))
    return n, mx, ps


def tok_bv(bv):
    n, mx, ps = bv
    t = tok_ranges(n) + [str(mx), str(len(ps))]
    for v, last, rs in ps:
        t += [str(v), str(last)] + tok_ranges(rs)
    return t


class C02(flow.Spec):
    pid = "C02"
    rule = ("op sequences on one actor's bookkeeping from the empty state: I = insert_db of a range set (as for cleared/"
            "complete versions), P = one incomplete chunk (process_incomplete_version + insert_db + insert_partial), "
            "R = replace the live state by from_conn. Exhaustive: all sequences of 2 range-sets (<=2 ranges each) over "
            "versions 1..5, all sequences of 3 single ranges over 1..4; random: universe 1..12, depth<=14, mixing I/P/R. "
            "After every op the full state (needed, max, partials, gap rows, seq rows, db max, generate_sync output, "
            "from_conn, contains_version bitmap) is compared impl-vs-model and judged by the Coq oracle state_ok. "
            "non-trivial = distinct sequence reaching a state with a gap or a partial")
    assumptions = ["versions >= 1 and < 2^63 (v = 0 underflows `start - 1` in compute_gaps_change; outside the quantifier)",
                   "rangemap RangeInclusiveSet is modelled by Lib/Ivl.v (checked by this correspondence, not verified)",
                   "reload = live is judged only for histories whose chunks agree on last_seq per version"]

    def normalize(self, obs):
        return obs.strip()

    def cases(self, tier, seed):
        rnd = random.Random(seed)
        thorough = tier == "thorough"
        out = []
        def rset_tokens(rs):
            return "I %d %s" % (len(rs), " ".join("%d %d" % r for r in rs))
        U = 5
        ranges = [(a, b) for a in range(1, U + 1) for b in range(a, U + 1)]
        sets = [[r] for r in ranges] + [list(c) for c in itertools.combinations(ranges, 2)]
        # depth 2 exhaustive over range sets
        for a in sets:
            for b in sets:
                if not thorough and rnd.random() < 0.6:
                    continue
                out.append(("book %d 2 %s %s" % (U + 1, rset_tokens(a), rset_tokens(b)), {"exh-2sets"}))
        U2 = 4 if not thorough else 5
        r2 = [(a, b) for a in range(1, U2 + 1) for b in range(a, U2 + 1)]
        for a in r2:
            for b in r2:
                for c in r2:
                    out.append(("book %d 3 %s %s %s" % (U2 + 1, rset_tokens([a]), rset_tokens([b]), rset_tokens([c])), {"exh-3single"}))
        # random deep with partials and reloads
        N = 1500 if not thorough else 40000
        for _ in range(N):
            U = rnd.choice([6, 8, 12])
            depth = rnd.randrange(1, 15)
            ops = []
            lasts = {}
            tags = {"random"}
            for _ in range(depth):
                x = rnd.random()
                if x < 0.5:
                    k = rnd.choice([1, 1, 1, 2, 3])
                    rs = []
                    for _ in range(k):
                        a = rnd.randrange(1, U + 1)
                        b = min(U, a + rnd.choice([0, 0, 0, 1, 2, 4]))
                        rs.append((a, b))
                    ops.append(rset_tokens(rs))
                elif x < 0.9:
                    v = rnd.randrange(1, U + 1)
                    if v not in lasts or rnd.random() < 0.05:
                        if v in lasts:
                            tags.add("inconsistent-last")
                        lasts[v] = rnd.randrange(0, 9)
                    last = lasts[v]
                    s = rnd.randrange(0, last + 1)
                    e = rnd.randrange(s, last + 1)
                    if s == 0 and e == last and rnd.random() < 0.7:
                        e = max(0, e - 1) if last > 0 else 0
                    ops.append("P %d %d %d %d" % (v, s, e, last))
                    tags.add("partial")
                else:
                    ops.append("R")
                    tags.add("reload")
            out.append(("book %d %d %s" % (U, len(ops), " ".join(ops)), tags))
        return out

    def nontrivial(self, case, model_obs):
        return bool(re.search(r" n=\d", model_obs)) or bool(re.search(r" p=\d", model_obs))

    def consistent_last(self, case):
        lasts = {}
        t = case.split()
        i = 3
        while i < len(t):
            if t[i] == "I":
                i += 2 + 2 * int(t[i + 1])
            elif t[i] == "P":
                v, last = int(t[i + 1]), int(t[i + 4])
                if lasts.setdefault(v, last) != last:
                    return False
                i += 5
            else:
                i += 1
        return True

    def oracle_lines(self, case, impl_obs):
        """one chk_bstate line per observed step"""
        if impl_obs.startswith(("ERR", "PANIC", "CRASH")):
            return ["chk_bstate 1 1 0 -1 0 0 0 0"]
        U = case.split()[1]
        cons = self.consistent_last(case)
        lines = []
        for step in impl_obs.split(" # "):
            m = re.match(r"(\w+) (n=\S* m=\S+ p=\S*) g=(\S*) s=(\S*) d=(\S+) adv=(\S+) fc=\[(.*?)\] cv=(\d*)", step.strip())
            if not m:
                lines.append("chk_bstate 1 1 0 -1 0 0 0 0")
                continue
            out = m.group(1)
            bad = 1 if out in ("baddelete", "idberr", "unexpected") else 0
            t = ["chk_bstate", U, str(bad)] + tok_bv(parse_bv(m.group(2))) + tok_ranges(parse_ranges(m.group(3)))
            adv = m.group(6)
            if adv == "-":
                t.append("0")
            else:
                h, need, parts = adv.split("|")
                t += ["1", h] + tok_ranges(parse_ranges(need))
                ps = [p for p in parts.split(";") if p]
                t.append(str(len(ps)))
                for p in ps:
                    v, rs = p.split(":")
                    t += [v] + tok_ranges(parse_ranges(rs))
            if cons:
                t += ["1"] + tok_bv(parse_bv(m.group(7)))
            else:
                t.append("0")
            lines.append(" ".join(t))
        return lines


SPEC = C02
