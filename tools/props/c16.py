"""C16 — nodes of different clusters never exchange data."""
import random, re
import vlib, flow


def ids(s, key):
    m = re.search(key + r"=([\d,]*)", s)
    return set(x for x in (m.group(1).split(",") if m else []) if x)


class C16(flow.Spec):
    pid = "C16"
    shards = 16
    rule = ("over loopback QUIC against the real code: uni = spawn_unipayload_handler fed one stream of broadcast frames whose "
            "declared cluster id is equal / different / absent (frame cut before the field, i.e. an old peer) for node cluster "
            "ids 0, 5, 65535 -> which changes reach the ingest channel; serve = serve_sync's first frame for every pair of "
            "(node cluster, client cluster) in {0,1,7,65535}^2; partners = which of the listed members (mixed clusters, listening "
            "endpoints) handle_sync connects to; bcast = which members the broadcast loop sends a local broadcast to (ring0 and "
            "non-ring0, mixed clusters). non-trivial = distinct scenario with at least one foreign-cluster element")
    assumptions = ["the uni handler captures the node's cluster id when the connection is accepted (a later change of the cluster id is not covered)",
                   "partners/bcast: the implementation's contacted set must be within the model's same-cluster set (timing makes 'all of them' unobservable)",
                   "QUIC, quinn and the plaintext crypto are part of the test bed, not of the model"]

    def cases(self, tier, seed):
        rnd = random.Random(seed)
        out = []
        thorough = tier == "thorough"
        clusters = [0, 5, 65535]
        for mine in clusters:
            for _ in range(8 if not thorough else 60):
                n = rnd.randrange(1, 7)
                fr = []
                for k in range(n):
                    c = rnd.choice([mine, mine, -1, 0, 5, 7, 65535])
                    fr.append("%d %d" % (c, k + 1))
                out.append(("uni %d %d %s" % (mine, n, " ".join(fr)), {"uni"}))
        out.append(("uni 0 3 -1 1 -1 2 -1 3", {"uni", "all-absent"}))
        out.append(("uni 5 3 -1 1 -1 2 -1 3", {"uni", "all-absent"}))
        cs = [0, 1, 7, 65535]
        for a in cs:
            for b in cs:
                out.append(("serve %d %d" % (a, b), {"serve"}))
        for _ in range(10 if not thorough else 80):
            mine = rnd.choice([0, 3])
            n = rnd.randrange(1, 6)
            same = 0
            ms = []
            for _ in range(n):
                c = rnd.choice([mine, 0, 3, 9])
                if c == mine:
                    same += 1
                    if same > 3:
                        c = 9
                # flag bit 0: ring0; flag >= 2: registered in our cluster first, then renewed (same address) into c
                ms.append("%d %d" % (c, rnd.randrange(0, 2) + (2 if rnd.random() < 0.35 else 0)))
            out.append(("partners %d %d %s" % (mine, n, " ".join(ms)), {"partners"}))
            out.append(("bcast %d %d %s" % (mine, n, " ".join(ms)), {"bcast"}))
        return out

    def agree(self, case, impl_obs, model_obs):
        if case.startswith(("partners", "bcast")):
            if not impl_obs.startswith("contacted="):
                return False
            return ids(impl_obs, "contacted") <= ids(model_obs, "contacted")
        return impl_obs.strip() == model_obs.strip()

    def impl_verdict(self, case, impl_obs):
        if impl_obs.startswith(("PANIC", "CRASH", "ERR")):
            return False
        t = case.split()
        if t[0] in ("partners", "bcast"):
            mine = t[1]; n = int(t[2])
            clusters = [t[3 + 2 * i] for i in range(n)]
            for i in ids(impl_obs, "contacted"):
                if clusters[int(i)] != mine:
                    return False
        if t[0] == "serve" and t[1] != t[2] and ("first=reject-different-cluster" not in impl_obs or "data=1" in impl_obs):
            return False
        if t[0] == "uni":
            mine = t[1]; n = int(t[2])
            decl = {t[4 + 2 * i]: t[3 + 2 * i] for i in range(n)}
            for v in ids(impl_obs, "delivered"):
                c = decl.get(v)
                if c is None or (c if c != "-1" else "0") != mine:
                    return False
        return None

    def nontrivial(self, case, model_obs):
        return True


SPEC = C16
