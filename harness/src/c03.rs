//! C03: chunked delivery of remote versions through the real
//! process_multiple_changes / process_fully_buffered_changes / clear_buffered_meta_loop.
use crate::{agentkit, c04::actor_of, util::Toks};
use klukai_agent::agent::{
    process_multiple_changes,
    util::{clear_buffered_meta_loop, process_fully_buffered_changes},
};
use klukai_types::{
    agent::Bookie,
    base::CrsqlDbVersion,
    broadcast::ChangeSource,
    channel::bounded,
};
use std::time::{Duration, Instant};

/// case: part <nops> { D v s e last k {seq}*k | A v | C }
pub fn part(t: &mut Toks) -> String {
    let rt = tokio::runtime::Builder::new_multi_thread().worker_threads(3).enable_all().build().unwrap();
    enum Op {
        D(u64, u64, u64, u64, Vec<u64>),
        A(u64),
        Z(u64),
        C,
    }
    let nops = t.usize();
    let mut ops = vec![];
    for _ in 0..nops {
        ops.push(match t.tok() {
            "D" => {
                let v = t.u64();
                let s = t.u64();
                let e = t.u64();
                let last = t.u64();
                let k = t.usize();
                Op::D(v, s, e, last, (0..k).map(|_| t.u64()).collect())
            }
            "A" => Op::A(t.u64()),
            "Z" => Op::Z(t.u64()),
            "C" => Op::C,
            x => panic!("bad op {x}"),
        });
    }
    rt.block_on(async move {
        let kit = agentkit::new_agent(|_| {}).await;
        let agent = kit.agent.clone();
        let bookie = Bookie::new(Default::default());
        let actor = actor_of(5);
        let mut rx_apply = kit.opts.rx_apply;
        let mut rx_clear = kit.opts.rx_clear_buf;
        // the real clear loop, fed only when the script says so
        let (tx_my_clear, rx_my_clear) = bounded(64, "verif-clear");
        tokio::spawn(clear_buffered_meta_loop(agent.clone(), rx_my_clear));
        let mut versions: Vec<u64> = vec![];
        let mut trig: std::collections::BTreeMap<u64, u64> = Default::default();
        let mut outs = vec![];
        let tmo = Duration::from_secs(30);
        for op in ops {
            match op {
                Op::D(v, s, e, last, seqs) => {
                    if !versions.contains(&v) {
                        versions.push(v);
                    }
                    let changes = seqs
                        .iter()
                        .map(|q| agentkit::mk_change(actor, v, *q, (v * 1000 + q) as i64, "x", 1, 1))
                        .collect();
                    let c = agentkit::full(actor, v, changes, s, e, last, 1);
                    let _ = process_multiple_changes(agent.clone(), bookie.clone(), vec![(c, ChangeSource::Sync, Instant::now())], tmo).await;
                }
                Op::A(v) => {
                    let _ = process_fully_buffered_changes(&agent, &bookie, actor, CrsqlDbVersion(v), tmo).await;
                }
                Op::Z(v) => {
                    // a peer that holds the version says it has no live change left
                    if !versions.contains(&v) {
                        versions.push(v);
                    }
                    let c = agentkit::empty(actor, v, v, 1);
                    let _ = process_multiple_changes(agent.clone(), bookie.clone(), vec![(c, ChangeSource::Sync, Instant::now())], tmo).await;
                }
                Op::C => {
                    while let Ok(req) = rx_clear.try_recv() {
                        tx_my_clear.send(req).await.unwrap();
                    }
                    tokio::time::sleep(Duration::from_millis(60)).await;
                    let c = agent.pool().write_low().await.unwrap();
                    drop(c);
                    tokio::time::sleep(Duration::from_millis(20)).await;
                }
            }
            // triggers are sent from spawned tasks: give them a moment
            tokio::time::sleep(Duration::from_millis(15)).await;
            while let Ok((_a, v)) = rx_apply.try_recv() {
                *trig.entry(v.0).or_default() += 1;
            }
            // observation
            let conn = agent.pool().read().await.unwrap();
            let mut parts = vec![];
            for v in &versions {
                let ids: Vec<String> = conn
                    .prepare("SELECT id FROM tests WHERE id >= ? AND id < ? ORDER BY id")
                    .unwrap()
                    .query_map([(*v * 1000) as i64, ((*v + 1) * 1000) as i64], |r| r.get::<_, i64>(0))
                    .unwrap()
                    .map(|x| (x.unwrap() - (*v * 1000) as i64).to_string())
                    .collect();
                let buf: Vec<String> = conn
                    .prepare("SELECT seq FROM __corro_buffered_changes WHERE site_id = ? AND db_version = ? ORDER BY seq")
                    .unwrap()
                    .query_map(rusqlite::params![actor, *v as i64], |r| r.get::<_, i64>(0))
                    .unwrap()
                    .map(|x| x.unwrap().to_string())
                    .collect();
                let rows: Vec<String> = conn
                    .prepare("SELECT start_seq, end_seq, last_seq FROM __corro_seq_bookkeeping WHERE site_id = ? AND db_version = ? ORDER BY start_seq")
                    .unwrap()
                    .query_map(rusqlite::params![actor, *v as i64], |r| {
                        Ok(format!("{}-{}:{}", r.get::<_, i64>(0)?, r.get::<_, i64>(1)?, r.get::<_, i64>(2)?))
                    })
                    .unwrap()
                    .map(|x| x.unwrap())
                    .collect();
                let mut full = false;
                let (mem, known) = {
                    let b = { bookie.read::<&str, _>("verif", None).await.get(&actor).cloned() };
                    match b {
                        None => ("-".to_string(), false),
                        Some(b) => {
                            let r = b.read::<&str, _>("verif", None).await;
                            if let Some(p) = r.get_partial(&CrsqlDbVersion(*v)) {
                                let rs: Vec<_> = p.seqs.iter().collect();
                                full = rs.len() == 1 && rs[0].start().0 == 0 && rs[0].end().0 == p.last_seq.0;
                            }
                            let m = r
                                .get_partial(&CrsqlDbVersion(*v))
                                .map(|p| {
                                    format!(
                                        "{}:{}",
                                        p.last_seq.0,
                                        p.seqs.iter().map(|x| format!("{}-{}", x.start().0, x.end().0)).collect::<Vec<_>>().join(",")
                                    )
                                })
                                .unwrap_or("-".to_string());
                            (m, r.contains_version(&CrsqlDbVersion(*v)))
                        }
                    }
                };
                // the notification for a version that just became complete in the buffer is sent by
                // a spawned task: wait for it instead of guessing how long that takes
                if full && trig.get(v).copied().unwrap_or(0) == 0 {
                    let t0 = Instant::now();
                    while trig.get(v).copied().unwrap_or(0) == 0 && t0.elapsed() < Duration::from_secs(10) {
                        tokio::time::sleep(Duration::from_millis(2)).await;
                        while let Ok((_a, tv)) = rx_apply.try_recv() {
                            *trig.entry(tv.0).or_default() += 1;
                        }
                    }
                }
                parts.push(format!(
                    "v{} db={} buf={} rows={} mem={} known={} trig={}",
                    v,
                    ids.join(","),
                    buf.join(","),
                    rows.join(","),
                    mem,
                    if known { 1 } else { 0 },
                    trig.get(v).copied().unwrap_or(0)
                ));
            }
            outs.push(parts.join(" "));
        }
        outs.join(" # ")
    })
}
