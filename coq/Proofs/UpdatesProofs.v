From Coq Require Import List ZArith Bool Lia.
From Corro Require Import Gen.Consts Model.Updates.
Import ListNotations.
Open Scope Z_scope.

Lemma ukey_eqb_spec : forall a b, ukey_eqb a b = true <-> a = b.
Proof.
  induction a as [|x a IH]; destruct b as [|y b]; cbn; split; intros H; try reflexivity; try discriminate.
  - apply andb_true_iff in H as [H1 H2]. apply Z.eqb_eq in H1. apply IH in H2. subst. reflexivity.
  - injection H as -> ->. apply andb_true_iff. split; [apply Z.eqb_refl|apply IH; reflexivity].
Qed.

Lemma ukey_eqb_refl k : ukey_eqb k k = true.
Proof. apply ukey_eqb_spec. reflexivity. Qed.

Lemma ukey_eqb_neq a b : a <> b -> ukey_eqb a b = false.
Proof. intros H. destruct (ukey_eqb a b) eqn:E; [apply ukey_eqb_spec in E; contradiction|reflexivity]. Qed.

Lemma ukey_dec (a b : ukey) : a = b \/ a <> b.
Proof. destruct (ukey_eqb a b) eqn:E; [left; apply ukey_eqb_spec; exact E|right; intros H; apply ukey_eqb_spec in H; congruence]. Qed.

(* ---------- IndexMap facts ---------- *)
Definition ikeys (m : imap) : list ukey := map fst m.

Lemma iget_iset_same k v m : iget k (iset k v m) = Some v.
Proof.
  induction m as [|[k' v'] t IH]; cbn; [rewrite ukey_eqb_refl; reflexivity|].
  destruct (ukey_eqb k' k) eqn:E; cbn; rewrite E; [reflexivity|exact IH].
Qed.

Lemma iget_iset_other k k' v m : k <> k' -> iget k' (iset k v m) = iget k' m.
Proof.
  intros Hne. induction m as [|[k0 v0] t IH]; cbn.
  - rewrite ukey_eqb_neq by exact Hne. reflexivity.
  - destruct (ukey_eqb k0 k) eqn:E; cbn.
    + apply ukey_eqb_spec in E. subst. rewrite ukey_eqb_neq by exact Hne. reflexivity.
    + destruct (ukey_eqb k0 k'); [reflexivity|exact IH].
Qed.

Lemma iget_none k m : iget k m = None <-> ~ In k (ikeys m).
Proof.
  induction m as [|[k' v'] t IH]; cbn; [split; [intros _ []|reflexivity]|].
  destruct (ukey_eqb k' k) eqn:E.
  - apply ukey_eqb_spec in E. subst. split; [discriminate|intros H; exfalso; apply H; left; reflexivity].
  - rewrite IH. split; [intros H [H1|H1]; [subst; rewrite ukey_eqb_refl in E; discriminate|contradiction]|
                        intros H H1; apply H; right; exact H1].
Qed.

Lemma ikeys_iset k v m : ikeys (iset k v m) = ikeys m \/ (~ In k (ikeys m) /\ ikeys (iset k v m) = ikeys m ++ [k]).
Proof.
  induction m as [|[k' v'] t IH]; cbn; [right; split; [intros []|reflexivity]|].
  destruct (ukey_eqb k' k) eqn:E; cbn; [left; reflexivity|].
  destruct IH as [IH|[Hn IH]]; [left; f_equal; exact IH|right]. split.
  - intros [H|H]; [subst; rewrite ukey_eqb_refl in E; discriminate|contradiction].
  - f_equal. exact IH.
Qed.

Lemma NoDup_snoc {A} (l : list A) x : NoDup l -> ~ In x l -> NoDup (l ++ [x]).
Proof.
  induction l as [|a l IH]; cbn; intros Hn Hx; [constructor; [intros []|constructor]|].
  inversion Hn as [|? ? Ha Hl]; subst. constructor.
  - rewrite in_app_iff. intros [H|[H|[]]]; [contradiction|subst; apply Hx; left; reflexivity].
  - apply IH; [exact Hl|intros H; apply Hx; right; exact H].
Qed.

Lemma ikeys_iset_nodup k v m : NoDup (ikeys m) -> NoDup (ikeys (iset k v m)).
Proof.
  intros Hn. destruct (ikeys_iset k v m) as [H|[Hni H]]; rewrite H; [exact Hn|apply NoDup_snoc; assumption].
Qed.

Lemma ikeys_iset_incl k v m x : In x (ikeys (iset k v m)) -> x = k \/ In x (ikeys m).
Proof.
  destruct (ikeys_iset k v m) as [H|[_ H]]; rewrite H; [auto|]. rewrite in_app_iff. intros [Hx|[Hx|[]]]; auto.
Qed.

Lemma iget_in k v m : NoDup (ikeys m) -> In (k, v) m -> iget k m = Some v.
Proof.
  induction m as [|[k' v'] t IH]; cbn; intros Hn Hi; [contradiction|].
  inversion Hn as [|? ? Hnot Hn']; subst. destruct Hi as [Hi|Hi].
  - injection Hi as -> ->. rewrite ukey_eqb_refl. reflexivity.
  - destruct (ukey_eqb k' k) eqn:E; [|apply IH; assumption].
    apply ukey_eqb_spec in E. subst. exfalso. apply Hnot. exact (in_map fst t (k, v) Hi).
Qed.

(* ---------- history: greatest causal length received for a key ---------- *)
Fixpoint maxcl (k : ukey) (seen : list (ukey * Z)) (acc : option Z) : option Z :=
  match seen with
  | [] => acc
  | (k', c) :: t =>
    maxcl k t (if ukey_eqb k' k then match acc with Some a => Some (Z.max a c) | None => Some c end else acc)
  end.

Lemma maxcl_app k l1 l2 acc : maxcl k (l1 ++ l2) acc = maxcl k l2 (maxcl k l1 acc).
Proof. revert acc. induction l1 as [|[k' c] t IH]; intros acc; cbn; [reflexivity|apply IH]. Qed.

(* cl of the last notification about k *)
Fixpoint lastn (k : ukey) (ns : list (nkind * ukey * Z)) (acc : option Z) : option Z :=
  match ns with
  | [] => acc
  | (_, k', c) :: t => lastn k t (if ukey_eqb k' k then Some c else acc)
  end.

Lemma lastn_app k l1 l2 acc : lastn k (l1 ++ l2) acc = lastn k l2 (lastn k l1 acc).
Proof. revert acc. induction l1 as [|[[nk k'] c] t IH]; intros acc; cbn; [reflexivity|apply IH]. Qed.

(* all notifications about k so far have cl <= b, and they are non-decreasing *)
Fixpoint mono_upto (k : ukey) (ns : list (nkind * ukey * Z)) (lo : option Z) : Prop :=
  match ns with
  | [] => True
  | (_, k', c) :: t =>
    if ukey_eqb k' k then (match lo with Some l => l <= c | None => True end) /\ mono_upto k t (Some c)
    else mono_upto k t lo
  end.

Lemma mono_upto_app k l1 l2 lo :
  mono_upto k (l1 ++ l2) lo <-> mono_upto k l1 lo /\ mono_upto k l2 (lastn k l1 lo).
Proof.
  revert lo. induction l1 as [|[[nk k'] c] t IH]; intros lo; cbn; [tauto|].
  destruct (ukey_eqb k' k); rewrite IH; tauto.
Qed.

Definition ole (a : option Z) (b : option Z) : Prop :=
  match a, b with Some x, Some y => x <= y | Some _, None => False | None, _ => True end.

Record uinv (st : ustate) (seen : list (ukey * Z)) (ns : list (nkind * ukey * Z)) : Prop := {
  ui_cache : forall k, iget k (u_cache st) = maxcl k seen None;
  ui_cnodup : NoDup (ikeys (u_cache st));
  ui_bnodup : NoDup (ikeys (u_buf st));
  ui_buf : forall k c, iget k (u_buf st) = Some c -> maxcl k seen None = Some c;
  ui_pend : forall k M, maxcl k seen None = Some M ->
            iget k (u_buf st) = Some M \/ (iget k (u_buf st) = None /\ lastn k ns None = Some M);
  ui_mono : forall k, mono_upto k ns None /\ ole (lastn k ns None) (maxcl k seen None) }.

Lemma uinv_init : uinv u_init [] [].
Proof.
  constructor; cbn; try constructor; try discriminate; auto.
Qed.

Lemma maxcl_snoc k seen k' c :
  maxcl k (seen ++ [(k', c)]) None =
  if ukey_eqb k' k then match maxcl k seen None with Some a => Some (Z.max a c) | None => Some c end
  else maxcl k seen None.
Proof. rewrite maxcl_app. cbn. destruct (ukey_eqb k' k); reflexivity. Qed.

Lemma ole_trans_max a m c : ole a m -> ole a (match m with Some x => Some (Z.max x c) | None => Some c end).
Proof. destruct a as [x|], m as [y|]; cbn; intros H; try lia; try exact I; contradiction. Qed.

Lemma recv1_inv st seen ns k c : uinv st seen ns -> uinv (recv1 st (k, c)) (seen ++ [(k, c)]) ns.
Proof.
  intros [Hc Hcn Hbn Hb Hp Hm]. unfold recv1.
  assert (Hcase : (exists M, iget k (u_cache st) = Some M /\ c < M) \/
                  (forall M, iget k (u_cache st) = Some M -> M <= c)).
  { destruct (iget k (u_cache st)) as [M|]; [|right; intros M H; discriminate].
    destruct (Z_lt_le_dec c M); [left; exists M; auto|right; intros M' H; injection H as <-; lia]. }
  destruct Hcase as [[M [HM Hlt]]|Hle].
  - (* skipped: an older state of k *)
    rewrite HM. destruct (c <? M) eqn:E; [|apply Z.ltb_ge in E; lia].
    assert (Hmax : forall k0, maxcl k0 (seen ++ [(k, c)]) None = maxcl k0 seen None).
    { intros k0. rewrite maxcl_snoc. destruct (ukey_eqb k k0) eqn:Ek; [|reflexivity].
      apply ukey_eqb_spec in Ek. subst. rewrite <- Hc, HM. f_equal. lia. }
    constructor; auto.
    + intros k0. rewrite Hmax. apply Hc.
    + intros k0 c0 H. rewrite Hmax. apply Hb. exact H.
    + intros k0 M0. rewrite Hmax. apply Hp.
    + intros k0. rewrite Hmax. apply Hm.
  - (* accepted *)
    assert (Hst : (match iget k (u_cache st) with
                   | Some cached => if c <? cached then st else mkU (iset k c (u_cache st)) (iset k c (u_buf st))
                   | None => mkU (iset k c (u_cache st)) (iset k c (u_buf st)) end) =
                  mkU (iset k c (u_cache st)) (iset k c (u_buf st))).
    { destruct (iget k (u_cache st)) as [M|] eqn:E; [|reflexivity].
      specialize (Hle M eq_refl). destruct (c <? M) eqn:E2; [apply Z.ltb_lt in E2; lia|reflexivity]. }
    rewrite Hst. clear Hst.
    assert (Hmaxk : maxcl k (seen ++ [(k, c)]) None = Some c).
    { rewrite maxcl_snoc, ukey_eqb_refl, <- Hc. destruct (iget k (u_cache st)) as [M|] eqn:E; [|reflexivity].
      specialize (Hle M eq_refl). f_equal. lia. }
    assert (Hmaxo : forall k0, k <> k0 -> maxcl k0 (seen ++ [(k, c)]) None = maxcl k0 seen None).
    { intros k0 Hne. rewrite maxcl_snoc, ukey_eqb_neq by exact Hne. reflexivity. }
    constructor; cbn [u_cache u_buf].
    + intros k0. destruct (ukey_dec k k0) as [<-|Hne].
      * rewrite iget_iset_same, Hmaxk. reflexivity.
      * rewrite iget_iset_other, Hmaxo by exact Hne. apply Hc.
    + apply ikeys_iset_nodup. exact Hcn.
    + apply ikeys_iset_nodup. exact Hbn.
    + intros k0 c0. destruct (ukey_dec k k0) as [<-|Hne].
      * rewrite iget_iset_same, Hmaxk. auto.
      * rewrite iget_iset_other, Hmaxo by exact Hne. apply Hb.
    + intros k0 M0. destruct (ukey_dec k k0) as [<-|Hne].
      * rewrite Hmaxk, iget_iset_same. intros H. left. exact H.
      * rewrite Hmaxo, iget_iset_other by exact Hne. apply Hp.
    + intros k0. destruct (Hm k0) as [H1 H2]. split; [exact H1|].
      destruct (ukey_dec k k0) as [<-|Hne].
      * rewrite maxcl_snoc, ukey_eqb_refl. apply ole_trans_max. exact H2.
      * rewrite Hmaxo by exact Hne. exact H2.
Qed.

Lemma recv_fold_inv cs : forall st seen ns, uinv st seen ns -> uinv (fold_left recv1 cs st) (seen ++ cs) ns.
Proof.
  induction cs as [|[k c] t IH]; intros st seen ns H; cbn [fold_left].
  - rewrite app_nil_r. exact H.
  - replace (seen ++ (k, c) :: t) with ((seen ++ [(k, c)]) ++ t) by (rewrite <- app_assoc; reflexivity).
    apply IH. apply recv1_inv. exact H.
Qed.

(* the cache only holds keys that were received *)
Lemma maxcl_changed_in k : forall seen acc, maxcl k seen acc <> acc -> In k (map fst seen).
Proof.
  induction seen as [|[k' c] t IH]; cbn; intros acc Hn; [congruence|].
  destruct (ukey_eqb k' k) eqn:Ek; [apply ukey_eqb_spec in Ek; left; exact Ek|right; exact (IH acc Hn)].
Qed.

Lemma cache_keys_seen st seen ns : uinv st seen ns -> forall k, In k (ikeys (u_cache st)) -> In k (map fst seen).
Proof.
  intros H k Hk. destruct (iget k (u_cache st)) as [M|] eqn:E.
  - rewrite (ui_cache _ _ _ H) in E. apply (maxcl_changed_in k seen None). congruence.
  - apply iget_none in E. contradiction.
Qed.

Lemma trim_id maxn keep m : Z.of_nat (length m) <= maxn -> trim maxn keep m = m.
Proof. intros H. unfold trim. destruct (maxn <? Z.of_nat (length m)) eqn:E; [apply Z.ltb_lt in E; lia|reflexivity]. Qed.

(* every candidate key comes from a universe of at most MAX keys: the cache is never trimmed *)
Definition bounded (maxn : Z) (U : list ukey) (cs : list (ukey * Z)) : Prop :=
  Z.of_nat (length U) <= maxn /\ forall k, In k (map fst cs) -> In k U.

Lemma recv_inv maxn keep U st seen ns cs : uinv st seen ns -> bounded maxn U (seen ++ cs) ->
  uinv (recv_with maxn keep st cs) (seen ++ cs) ns.
Proof.
  intros H [Hlen HU]. pose proof (recv_fold_inv cs st seen ns H) as H1. unfold recv_with.
  assert (Hl : Z.of_nat (length (u_cache (fold_left recv1 cs st))) <= maxn).
  { assert (Hincl : incl (ikeys (u_cache (fold_left recv1 cs st))) U).
    { intros k Hk. apply HU. exact (cache_keys_seen _ _ _ H1 k Hk). }
    pose proof (NoDup_incl_length (ui_cnodup _ _ _ H1) Hincl) as Hle.
    unfold ikeys in Hle. rewrite map_length in Hle. lia. }
  rewrite trim_id by exact Hl.
  destruct H1 as [a b c d e f]. constructor; cbn [u_cache u_buf]; assumption.
Qed.

Lemma lastn_batch k buf acc : NoDup (ikeys buf) ->
  lastn k (map (fun e => (kind_of (snd e), fst e, snd e)) buf) acc =
  match iget k buf with Some c => Some c | None => acc end.
Proof.
  revert acc. induction buf as [|[k' c] t IH]; intros acc Hn; cbn; [reflexivity|].
  inversion Hn as [|? ? Hnot Hn']; subst.
  destruct (ukey_eqb k' k) eqn:E.
  - apply ukey_eqb_spec in E. subst. rewrite IH by exact Hn'.
    assert (iget k t = None) by (apply iget_none; exact Hnot). rewrite H. reflexivity.
  - apply IH. exact Hn'.
Qed.

Lemma mono_batch k buf lo : NoDup (ikeys buf) ->
  (match iget k buf, lo with Some c, Some l => l <= c | _, _ => True end) ->
  mono_upto k (map (fun e => (kind_of (snd e), fst e, snd e)) buf) lo.
Proof.
  revert lo. induction buf as [|[k' c] t IH]; intros lo Hn Hc; cbn; [exact I|].
  inversion Hn as [|? ? Hnot Hn']; subst. cbn in Hc.
  destruct (ukey_eqb k' k) eqn:E.
  - apply ukey_eqb_spec in E. subst. split; [destruct lo; [exact Hc|exact I]|].
    apply IH; [exact Hn'|]. assert (iget k t = None) by (apply iget_none; exact Hnot). rewrite H. exact I.
  - apply IH; assumption.
Qed.

Lemma flush_inv st seen ns : uinv st seen ns ->
  uinv (mkU (u_cache st) []) seen (ns ++ map (fun e => (kind_of (snd e), fst e, snd e)) (u_buf st)).
Proof.
  intros [Hc Hcn Hbn Hb Hp Hm]. constructor; cbn [u_cache u_buf].
  - exact Hc.
  - exact Hcn.
  - constructor.
  - intros k c H. discriminate.
  - intros k M HM. right. split; [reflexivity|]. rewrite lastn_app, lastn_batch by exact Hbn.
    destruct (Hp k M HM) as [H|[H1 H2]]; [rewrite H; reflexivity|rewrite H1; exact H2].
  - intros k. destruct (Hm k) as [H1 H2]. split.
    + apply mono_upto_app. split; [exact H1|]. apply mono_batch; [exact Hbn|].
      destruct (iget k (u_buf st)) as [c|] eqn:E; [|exact I].
      destruct (lastn k ns None) as [l|]; [|exact I].
      rewrite (Hb k c E) in H2. exact H2.
    + rewrite lastn_app, lastn_batch by exact Hbn.
      destruct (iget k (u_buf st)) as [c|] eqn:E; [|exact H2].
      rewrite (Hb k c E). cbn. lia.
Qed.

Fixpoint received (ops : list uop) : list (ukey * Z) :=
  match ops with
  | [] => []
  | URecv cs :: t => cs ++ received t
  | UFlush :: t => received t
  end.

Lemma urun_inv maxn keep U : forall ops st seen ns,
  uinv st seen ns -> bounded maxn U (seen ++ received ops) ->
  uinv (fst (urun_with maxn keep st ops)) (seen ++ received ops) (ns ++ snd (urun_with maxn keep st ops)).
Proof.
  induction ops as [|o ops IH]; intros st seen ns H Hb; cbn [urun_with received].
  - cbn. rewrite !app_nil_r. exact H.
  - destruct o as [cs|]; cbn [ustep_with].
    + cbn [received] in Hb.
      assert (Hb1 : bounded maxn U (seen ++ cs)).
      { destruct Hb as [Hl HU]. split; [exact Hl|]. intros k Hk. apply HU.
        rewrite map_app in *. rewrite in_app_iff in *. destruct Hk as [Hk|Hk]; [left; exact Hk|].
        right. rewrite map_app, in_app_iff. left. exact Hk. }
      pose proof (recv_inv maxn keep U st seen ns cs H Hb1) as H1.
      rewrite (app_assoc seen cs (received ops)) in Hb. specialize (IH _ _ ns H1 Hb).
      destruct (urun_with maxn keep (recv_with maxn keep st cs) ops) as [st2 n2]. cbn [fst snd app] in *.
      rewrite (app_assoc seen cs (received ops)). exact IH.
    + pose proof (flush_inv st seen ns H) as H1. cbn [received] in Hb.
      specialize (IH _ _ _ H1 Hb).
      destruct (urun_with maxn keep (mkU (u_cache st) []) ops) as [st2 n2]. cbn [fst snd] in *.
      rewrite app_assoc. exact IH.
Qed.

Lemma received_flush ops : received (ops ++ [UFlush]) = received ops.
Proof. induction ops as [|[cs|] t IH]; cbn; [reflexivity|rewrite IH; reflexivity|exact IH]. Qed.

Lemma flush_last_empty maxn keep ops : forall st, u_buf (fst (urun_with maxn keep st (ops ++ [UFlush]))) = [].
Proof.
  induction ops as [|o t IH]; intros st; cbn.
  - reflexivity.
  - destruct (ustep_with maxn keep st o) as [st1 n1].
    specialize (IH st1). destruct (urun_with maxn keep st1 (t ++ [UFlush])) as [st2 n2]. exact IH.
Qed.

(* ---------- the statement ---------- *)
Theorem updates_final_fate maxn keep U ops :
  bounded maxn U (received ops) ->
  let ns := snd (urun_with maxn keep u_init (ops ++ [UFlush])) in
  (forall k M, maxcl k (received ops) None = Some M -> lastn k ns None = Some M) /\
  (forall k, mono_upto k ns None) /\
  (forall k c, lastn k ns None = Some c -> maxcl k (received ops) None = Some c).
Proof.
  intros Hb ns.
  pose proof (received_flush ops) as Hrec.
  assert (Hb' : bounded maxn U ([] ++ received (ops ++ [UFlush]))) by (cbn; rewrite Hrec; exact Hb).
  pose proof (urun_inv maxn keep U (ops ++ [UFlush]) u_init [] [] uinv_init Hb') as H.
  cbn [app] in H. rewrite Hrec in H. fold ns in H.
  (* the run ends with a flush: nothing is pending *)
  pose proof (flush_last_empty maxn keep ops u_init) as Hempty.
  split; [|split].
  - intros k M HM. destruct (ui_pend _ _ _ H k M HM) as [Hp|[_ Hp]]; [|exact Hp].
    rewrite Hempty in Hp. discriminate.
  - intros k. apply (ui_mono _ _ _ H).
  - intros k c Hl. destruct (ui_mono _ _ _ H k) as [_ Hole]. rewrite Hl in Hole.
    destruct (maxcl k (received ops) None) as [M|] eqn:E; [|contradiction].
    destruct (ui_pend _ _ _ H k M E) as [Hp|[_ Hp]]; [rewrite Hempty in Hp; discriminate|].
    rewrite Hl in Hp. symmetry. exact Hp.
Qed.

Lemma mono_filter k : forall ns lo, mono_upto k ns lo -> mono_upto k (filter (fun n => ukey_eqb (snd (fst n)) k) ns) lo.
Proof.
  induction ns as [|[[nk k'] c] t IH]; intros lo Hm; [exact I|].
  cbn [mono_upto filter fst snd] in *.
  destruct (ukey_eqb k' k) eqn:Ek.
  - cbn [mono_upto]. rewrite Ek. destruct Hm as [H1 H2]. split; [exact H1|apply IH; exact H2].
  - apply IH. exact Hm.
Qed.

