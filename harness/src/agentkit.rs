//! Shared helpers: a real agent created with `setup()` in a temp dir, the test
//! schema applied, no background loops unless the caller spawns them.
use klukai_agent::{
    agent::{setup, AgentOptions},
    api::public::api_v1_db_schema,
};
use klukai_types::{
    actor::ActorId,
    agent::Agent,
    api::{ColumnName, TableName},
    base::{CrsqlDbVersion, CrsqlSeq},
    broadcast::{ChangeV1, Changeset, Timestamp},
    change::Change,
    config::Config,
    pubsub::pack_columns,
    tripwire::Tripwire,
};

pub const SCHEMA: &str = r#"
    CREATE TABLE IF NOT EXISTS tests (
        id INTEGER NOT NULL PRIMARY KEY,
        text TEXT NOT NULL DEFAULT ""
    ) WITHOUT ROWID;
    CREATE TABLE IF NOT EXISTS tests2 (
        id INTEGER NOT NULL PRIMARY KEY,
        text TEXT NOT NULL DEFAULT ""
    ) WITHOUT ROWID;
"#;

pub struct Kit {
    pub agent: Agent,
    pub opts: AgentOptions,
    pub dir: tempfile::TempDir,
    pub tripwire: Tripwire,
    pub _tw_tx: tokio::sync::mpsc::Sender<()>,
}

pub async fn new_agent<F: FnOnce(&mut Config)>(tweak: F) -> Kit {
    let (tripwire, _worker, tw_tx) = Tripwire::new_simple();
    std::mem::forget(_worker);
    let dir = tempfile::tempdir().unwrap();
    let mut config = Config::builder()
        .db_path(dir.path().join("corrosion.db").display().to_string())
        .gossip_addr("127.0.0.1:0".parse().unwrap())
        .api_addr("127.0.0.1:0".parse().unwrap())
        .build()
        .unwrap();
    tweak(&mut config);
    let (agent, opts) = setup(config, tripwire.clone()).await.unwrap();
    let (status, _) = api_v1_db_schema(axum::Extension(agent.clone()), axum::Json(vec![SCHEMA.to_owned()])).await;
    assert!(status.is_success(), "schema");
    Kit { agent, opts, dir, tripwire, _tw_tx: tw_tx }
}

/// one change row of version `v`, seq `seq`, authored by `actor`: sets tests.text of row `id`
pub fn mk_change(actor: ActorId, v: u64, seq: u64, id: i64, text: &str, col_version: i64, cl: i64) -> Change {
    Change {
        table: TableName("tests".into()),
        pk: pack_columns(&[id.into()]).unwrap(),
        cid: ColumnName("text".into()),
        val: text.into(),
        col_version,
        db_version: CrsqlDbVersion(v),
        seq: CrsqlSeq(seq),
        site_id: actor.to_bytes(),
        cl,
    }
}

pub fn full(actor: ActorId, v: u64, changes: Vec<Change>, s: u64, e: u64, last: u64, ts: u64) -> ChangeV1 {
    ChangeV1 {
        actor_id: actor,
        changeset: Changeset::Full {
            version: CrsqlDbVersion(v),
            changes,
            seqs: CrsqlSeq(s)..=CrsqlSeq(e),
            last_seq: CrsqlSeq(last),
            ts: Timestamp::from(ts),
        },
    }
}

pub fn empty(actor: ActorId, lo: u64, hi: u64, ts: u64) -> ChangeV1 {
    ChangeV1 {
        actor_id: actor,
        changeset: Changeset::Empty {
            versions: CrsqlDbVersion(lo)..=CrsqlDbVersion(hi),
            ts: Some(Timestamp::from(ts)),
        },
    }
}
