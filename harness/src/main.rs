//! corro-verif-harness: drives the *real* klukai crates on cases read from
//! stdin (one per line) and prints one canonical observation line per case.
//! The same case lines are fed to the extracted Coq model (extract/modelrun.ml).
use std::io::{BufRead, Write};

mod c01;
mod c02;
mod c03;
mod c04;
mod c05;
mod c06;
mod c07;
mod agentkit;
mod c08;
mod c09;
mod c10;
mod c11;
mod c12;
mod c13;
mod c14;
mod c15;
mod c17;
mod c19;
mod c20;
mod c16;
mod c18;
pub mod util;

fn main() {
    let args: Vec<String> = std::env::args().collect();
    if args.len() < 2 {
        eprintln!("usage: harness <mode>");
        std::process::exit(2);
    }
    match args[1].as_str() {
        "lines" => run_lines(),
        "lines-limited" => {
            // decode peer bytes under an address-space limit: an allocation driven by
            // a length field shows up as an abort instead of being absorbed by the host
            c09::set_memory_limit(3 << 30);
            run_lines()
        }
        "c09-gen" => c09::generate(args[2].parse().unwrap(), args[3].parse().unwrap()),
        "c08-base-size" => println!("{}", c08::base_size()),
        m => {
            eprintln!("unknown mode {m}");
            std::process::exit(2);
        }
    }
}

/// Line mode: every line is `<kind> <ints...>`; pure (non-async) handlers.
fn run_lines() {
    let stdin = std::io::stdin();
    // results go to a private copy of stdout; fd 1 itself is pointed at stderr so that anything
    // the code under test prints (the tripwire worker prints a newline) cannot corrupt the
    // one-line-per-case protocol, and stdout is never kept locked
    let mut out = unsafe {
        use std::os::fd::FromRawFd;
        let keep = libc::dup(1);
        libc::dup2(2, 1);
        std::fs::File::from_raw_fd(keep)
    };
    for line in stdin.lock().lines() {
        let line = line.expect("stdin");
        let mut t = util::Toks::new(&line);
        if t.eot() {
            writeln!(out).unwrap();
            continue;
        }
        let kind = t.tok().to_string();
        let res = std::panic::catch_unwind(std::panic::AssertUnwindSafe(|| match kind.as_str() {
            "chunks" => c08::chunks(&mut t),
            "range" => c08::range(&mut t),
            "book" => c02::book(&mut t),
            "needs" => c04::needs(&mut t),
            "members" => c18::members(&mut t),
            "part" => c03::part(&mut t),
            "ingest" => c10::ingest(&mut t),
            "uni" => c16::uni(&mut t),
            "serve" => c16::serve(&mut t),
            "srv" => c05::serve(&mut t),
            "crdt" => c01::crdt(&mut t),
            "crdtsim" => c01::crdtsim(&mut t),
            "cluster" => c01::cluster(&mut t),
            "crash" => c06::crash(&mut t),
            "sub" => c11::sub(&mut t),
            "upd" => c14::upd(&mut t),
            "evict" => c14::evict(&mut t),
            "attach" => c12::attach(&mut t),
            "early" => c12::early(&mut t),
            "commitwin" => c12::commitwin(&mut t),
            "restart" => c13::restart(&mut t),
            "inflight" => c13::inflight(&mut t),
            "realstop" => c13::realstop(&mut t),
            "schema" => c15::schema(&mut t),
            "authz" => c17::authz(&mut t),
            "backup" => c19::backup(&mut t),
            "walread" => c19::walread(&mut t),
            "pool" => c20::pool(&mut t),
            "mix" => c20::mix(&mut t),
            "cancelwin" => c20::cancelwin(&mut t),
            "ro" => c17::ro(&mut t),
            "authzdbg" => c17::authzdbg(&mut t),
            "ltx" => c07::ltx(&mut t),
            "ctx" => c07::ctx(&mut t),
            "partners" => c16::partners(&mut t),
            "bcast" => c16::bcast(&mut t),
            "wire" => c09::wire(&mut t),
            "decode" => c09::decode(&mut t),
            "pack" => c09::pack(&mut t),
            "unpack" => c09::unpack(&mut t),
            "utf8" => c09::utf8(&mut t),
            _ => format!("ERR unknown-kind {kind}"),
        }));
        match res {
            Ok(s) => writeln!(out, "{s}").unwrap(),
            Err(_) => writeln!(out, "PANIC").unwrap(),
        }
        out.flush().unwrap();
    }
    out.flush().unwrap();
}
