(* Model of a subscription's persisted life cycle, crates/klukai-types/src/pubsub.rs:
   Matcher::create ('created'), run (initial query + 'running' in one transaction), cmd_loop
   (batches; cancellation; tripwire; drain; 'completed'), run_restore ('running'),
   Matcher::restore (requires 'completed') and setup_spawn_subscriptions (removes what it
   cannot restore).  What a batch does to the matview is C11's subject; here a batch makes
   the matview equal to the query on the database as of the candidates received so far. *)
From Coq Require Import List Bool.
Import ListNotations.

Inductive meta := MAbsent | MCreated | MRunning | MCancelled | MCompleted.

Record sub := mkSub {
  s_meta : meta;            (* meta.state in sub.sqlite *)
  s_synced : bool;          (* matview = query(database as of every candidate processed) and nothing was missed *)
  s_pending : bool;         (* candidates received but not processed yet *)
  s_fed : bool;             (* the matcher is registered: changes to the database reach it as candidates *)
  s_loop : bool;            (* the matcher loop is running *)
  s_draining : bool }.      (* left the loop through the tripwire (or a cancellation during shutdown) *)

Definition s_init : sub := mkSub MAbsent true false false false false.

Inductive lop :=
| LCreate            (* Matcher::create commits the sub database: 'created', handle registered *)
| LInitial           (* run: initial rows and 'running' committed together; the loop starts *)
| LWrite             (* a transaction changes the database *)
| LBatch             (* handle_candidates on everything pending *)
| LCancel (shutting_down : bool)   (* the loop observes the cancellation token *)
| LUnregister        (* the manager drops the handle (listeners gone / drop_handles) *)
| LTrip              (* the loop observes the tripwire *)
| LDrainDone         (* the candidates channel is closed: last batch (skip_send) and 'completed' *)
| LRestoreRun.       (* after a restart: run_restore marks 'running' and starts the loop *)

(* `cancel_returns`: does a cancellation outside a shutdown leave without completing (the
   source's current behaviour is generated into Gen/SubLifeCfg.v) *)
Definition lstep (cancel_returns : bool) (s : sub) (o : lop) : sub :=
  match o with
  | LCreate => match s_meta s with MAbsent => mkSub MCreated true false true false false | _ => s end
  | LInitial => match s_meta s with MCreated => mkSub MRunning true false (s_fed s) true false | _ => s end
  | LWrite => if s_fed s then mkSub (s_meta s) (s_synced s) true (s_fed s) (s_loop s) (s_draining s)
              else mkSub (s_meta s) false (s_pending s) false (s_loop s) (s_draining s)   (* nobody tells the matcher *)
  | LBatch => if s_loop s then mkSub (s_meta s) (s_synced s) false (s_fed s) true false else s
  | LCancel sd =>
      if s_loop s then
        if cancel_returns && negb sd then mkSub MCancelled (s_synced s) (s_pending s) (s_fed s) false false
        else mkSub MCancelled (s_synced s) (s_pending s) (s_fed s) false true
      else s
  | LUnregister => mkSub (s_meta s) (s_synced s) (s_pending s) false (s_loop s) (s_draining s)
  | LTrip => if s_loop s then mkSub (s_meta s) (s_synced s) (s_pending s) (s_fed s) false true else s
  | LDrainDone =>
      (* recv() returns None only when every sender is gone *)
      if s_draining s && negb (s_fed s) then mkSub MCompleted (s_synced s) false false false false else s
  | LRestoreRun => match s_meta s with
                   | MCompleted => mkSub MRunning (s_synced s) (s_pending s) true true false
                   | _ => s end
  end.

Definition lrun (cr : bool) (ops : list lop) (s : sub) : sub := fold_left (lstep cr) ops s.

(* a stop of the process at any point, then a start: restore or remove *)
Definition restored_at_start (s : sub) : bool := match s_meta s with MCompleted => true | _ => false end.

(* the restored subscription's rows are the query's result *)
Definition restore_is_sound (s : sub) : bool := negb (restored_at_start s) || (s_synced s && negb (s_pending s)).

(* setup_spawn_subscriptions at the next start: restore what is 'completed', remove the rest *)
Definition start_node (cr : bool) (s : sub) : sub :=
  if restored_at_start s then lstep cr s LRestoreRun else s_init.
