"""C04 — sync requests: everything available, nothing beyond."""
import random, re
import vlib, flow


def subset_ranges(bits, lo):
    """bitmask over lo.. -> canonical ranges"""
    out, i, n = [], 0, len(bits)
    while i < n:
        if bits[i]:
            j = i
            while j + 1 < n and bits[j + 1]:
                j += 1
            out.append((lo + i, lo + j)); i = j + 1
        else:
            i += 1
    return out


def tok_state(st):
    me, heads, need, partial = st
    t = [str(me), str(len(heads))]
    for a, h in heads:
        t += [str(a), str(h)]
    t.append(str(len(need)))
    for a, rs in need:
        t += [str(a), str(len(rs))] + [str(x) for r in rs for x in r]
    t.append(str(len(partial)))
    for a, m in partial:
        t += [str(a), str(len(m))]
        for v, rs in m:
            t += [str(v), str(len(rs))] + [str(x) for r in rs for x in r]
    return t


def gen_state(rnd, me, actors, maxhead, maxseq):
    heads, need, partial = [], [], []
    for a in actors:
        if rnd.random() < 0.15:
            continue                      # actor unknown to this side
        h = rnd.randrange(0, maxhead + 1) if rnd.random() < 0.9 else 0
        heads.append((a, h))
        if h == 0:
            continue
        bits = [rnd.random() < 0.3 for _ in range(h - 1)]      # head itself is never needed
        ns = subset_ranges(bits, 1)
        if ns and rnd.random() < 0.9:
            if rnd.random() < 0.2:
                rnd.shuffle(ns)
            need.append((a, ns))
        pm = []
        for v in range(1, h + 1):
            if (v - 1 < len(bits) and bits[v - 1]) or rnd.random() > 0.25:
                continue
            last = rnd.randrange(0, maxseq + 1)
            mb = [rnd.random() < 0.5 for _ in range(last + 1)]
            if not any(mb):
                mb[rnd.randrange(0, last + 1)] = True
            pm.append((v, subset_ranges(mb, 0)))
        if pm:
            rnd.shuffle(pm)
            partial.append((a, pm))
    rnd.shuffle(heads)
    return (me, heads, need, partial)


class C04(flow.Spec):
    pid = "C04"
    rule = ("pairs of well-formed sync states (needs = canonical ranges below the head, partial versions <= head and not "
            "needed, missing seq ranges canonical inside 0..last) over 1-3 origin actors plus the two nodes' own ids, heads "
            "0..8, actors known to one side only, head 0, self-authored actors present in the peer's state; thorough adds "
            "larger heads. Output compared as per-actor sorted multisets; oracle check_needs sweeps every version 0..head+1 "
            "and seq 0..qmax. non-trivial = distinct pair whose result has >=1 request")
    assumptions = ["well-formed peer state (ranges start<=end, unique map keys); ill-formed ranges make rangemap panic and are outside the quantifier",
                   "the client-side request de-duplication inside parallel_sync's spawned task is not covered by this check"]

    def cases(self, tier, seed):
        rnd = random.Random(seed)
        out = []
        N = 12000 if tier == "quick" else 300000
        for i in range(N):
            nact = rnd.choice([1, 1, 2, 3])
            actors = rnd.sample([3, 4, 5, 6], nact)
            me, peer = 1, 2
            pool_us = actors + ([peer] if rnd.random() < 0.5 else []) + ([me] if rnd.random() < 0.5 else [])
            pool_them = actors + ([peer] if rnd.random() < 0.5 else []) + ([me] if rnd.random() < 0.5 else [])
            mh = rnd.choice([3, 5, 8]) if tier == "quick" else rnd.choice([3, 5, 8, 20])
            us = gen_state(rnd, me, pool_us, mh, 6)
            them = gen_state(rnd, peer, pool_them, mh, 6)
            tags = {"random", "actors=%d" % nact}
            if any(a == me for a, _ in them[1]):
                tags.add("peer-knows-our-own-actor")
            out.append(("needs " + " ".join(tok_state(us) + tok_state(them)), tags))
        return out

    def nontrivial(self, case, model_obs):
        return bool(model_obs.strip())

    def oracle_line(self, case, impl_obs):
        if impl_obs.startswith(("ERR", "PANIC", "CRASH")):
            impl_obs = ""
        toks = case.split()[1:]
        vmax = 0
        # find the largest head mentioned (cheap upper bound: max token)
        vmax = max(int(x) for x in toks) + 1
        out_t = []
        groups = [g for g in impl_obs.strip().split(";") if g]
        out_t.append(str(len(groups)))
        for g in groups:
            a, items = g.split(":", 1)
            items = items.split()
            out_t += [a, str(len(items))]
            for it in items:
                if it.startswith("F"):
                    s, e = it[1:].split("-")
                    out_t += ["F", s, e]
                elif it.startswith("P"):
                    m = re.match(r"P(\d+)\[(.*)\]", it)
                    rs = [r for r in m.group(2).split(",") if r]
                    out_t += ["P", m.group(1), str(len(rs))]
                    for r in rs:
                        out_t += r.split("-")
                else:
                    return "chk_needs 0 0 1 0 0 0 1 0 0 0 1 99 1 F 5 5"   # unexpected item: force failure
        return " ".join(["chk_needs", str(vmax), "8"] + toks + out_t)


SPEC = C04
