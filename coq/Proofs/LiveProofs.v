(* Row level: which merged records does a row still attribute a clock row to?  A record
   that was merged and is not live any more is strictly below another merged record
   (or is a re-insert marker of the newest generation, whose value record decides). *)
From Coq Require Import List ZArith Bool Lia.
From Corro Require Import Model.Crdt Model.CrdtSpec Model.Cluster Proofs.CrdtProofs Proofs.ConvergeProofs.
Import ListNotations.
Open Scope Z_scope.

Lemma clk_eqb_refl k : clk_eqb k k = true.
Proof. unfold clk_eqb. rewrite !Z.eqb_refl. reflexivity. Qed.

Lemma clk_eqb_eq a b : clk_eqb a b = true -> a = b.
Proof.
  unfold clk_eqb. intros H. apply andb_true_iff in H. destruct H as [H H3]. apply andb_true_iff in H. destruct H as [H1 H2].
  apply Z.eqb_eq in H1, H2, H3. destruct a, b. cbn in *. subst. reflexivity.
Qed.

Lemma rec_eqb_eq r r' : rec_eqb r r' = true -> r = r'.
Proof.
  unfold rec_eqb. intros H.
  repeat match goal with Hx : _ && _ = true |- _ => apply andb_true_iff in Hx; destruct Hx end.
  repeat match goal with Hx : (_ =? _) = true |- _ => apply Z.eqb_eq in Hx end.
  match goal with Hx : Bool.eqb _ _ = true |- _ => apply Bool.eqb_prop in Hx end.
  destruct r, r'. cbn in *. subst. reflexivity.
Qed.

Lemma rec_eqb_refl r : rec_eqb r r = true.
Proof. unfold rec_eqb. rewrite !Z.eqb_refl, Bool.eqb_reflx. reflexivity. Qed.

Lemma maxcl_app P Q : maxcl (P ++ Q) = Z.max (maxcl P) (maxcl Q).
Proof.
  induction P as [|p P IH]; cbn [app].
  - rewrite maxcl_nil. pose proof (maxcl_nonneg Q). lia.
  - rewrite !maxcl_cons, IH. lia.
Qed.

Lemma merge_row_cl o x : 1 <= r_cl x -> local_cl (merge_row o x) = Z.max (local_cl o) (r_cl x).
Proof.
  intros Hx. unfold merge_row. cbv zeta.
  destruct (r_cl x <? local_cl o) eqn:E1; [apply Z.ltb_lt in E1; lia|]. apply Z.ltb_ge in E1.
  destruct (Z.even (r_cl x)).
  { destruct (r_cl x =? local_cl o) eqn:E2; [apply Z.eqb_eq in E2; lia|]. cbn [local_cl rw_cl]. lia. }
  destruct (r_sent x).
  { destruct (r_cl x =? local_cl o) eqn:E2; [apply Z.eqb_eq in E2; lia|]. cbn [local_cl rw_cl]. lia. }
  destruct (local_cl o <? r_cl x) eqn:E3.
  { cbn [local_cl rw_cl]. lia. }
  apply Z.ltb_ge in E3. destruct o as [s|]; [|cbn [local_cl] in *; lia].
  destruct (cid_wins (rw_col s) x); cbn [local_cl rw_cl] in *; lia.
Qed.

Definition stL (Q : list rec) : option rowst := fold_left merge_row Q None.

Lemma stL_snoc Q x : stL (Q ++ [x]) = merge_row (stL Q) x.
Proof. unfold stL. rewrite fold_left_app. reflexivity. Qed.

Lemma stL_cl Q : forallb rec_ok Q = true -> local_cl (stL Q) = maxcl Q.
Proof.
  induction Q as [|x Q IH] using rev_ind; intros Hok.
  - reflexivity.
  - rewrite forallb_app in Hok. apply andb_true_iff in Hok. destruct Hok as [HQ Hx]. cbn in Hx. rewrite andb_true_r in Hx.
    rewrite stL_snoc, merge_row_cl, IH, maxcl_app, maxcl_cons, maxcl_nil by
      (try assumption; unfold rec_ok in Hx; apply andb_true_iff in Hx; destruct Hx as [Hx _]; apply Z.leb_le in Hx; exact Hx).
    unfold rec_ok in Hx. apply andb_true_iff in Hx. destruct Hx as [Hx _]. apply Z.leb_le in Hx. lia.
Qed.

(* the owner of the data cell *)
Definition col_owner (Q : list rec) (o : option rowst) : Prop :=
  forall s c, o = Some s -> rw_col s = Some c ->
  exists r0, In r0 Q /\ is_data r0 = true /\ rclk r0 = c_clk c /\ c_val c = r_val r0 /\
             ((c_colv c = r_colv r0 /\ r_cl r0 = rw_cl s) \/ (c_colv c = 0 /\ r_cl r0 < rw_cl s)).

Definition pending (Q : list rec) (r : rec) : Prop :=
  r_sent r = true /\ Z.odd (r_cl r) = true /\ r_cl r = maxcl Q.

Definition accounted (Q : list rec) (o : option rowst) : Prop :=
  forall r, In r Q -> live_row o r = true \/ (exists r', In r' Q /\ sdom r r' = true) \/ pending Q r.

Definition pairwise (f : rec -> rec -> bool) (Q : list rec) : Prop :=
  forall r r', In r Q -> In r' Q -> f r r' = false.

Lemma sdom_cl r r' : r_cl r < r_cl r' -> sdom r r' = true.
Proof. intros H. unfold sdom. apply Z.ltb_lt in H. rewrite H. reflexivity. Qed.

Lemma odd_even_false z : Z.even z = false -> Z.odd z = true.
Proof. intros H. rewrite <- Z.negb_even, H. reflexivity. Qed.

Section Row.
Variable k : Z.

Lemma live_step (Q : list rec) (x : rec) :
  (forall r, In r (Q ++ [x]) -> r_row r = k) ->
  forallb rec_ok (Q ++ [x]) = true ->
  pairwise tie (Q ++ [x]) -> pairwise clk_clash (Q ++ [x]) ->
  col_owner Q (stL Q) -> accounted Q (stL Q) ->
  col_owner (Q ++ [x]) (stL (Q ++ [x])) /\ accounted (Q ++ [x]) (stL (Q ++ [x])).
Proof.
  intros Hrow Hok Htie Hclk Hown Hacc.
  rewrite forallb_app in Hok. apply andb_true_iff in Hok. destruct Hok as [HokQ Hokx]. cbn in Hokx. rewrite andb_true_r in Hokx.
  assert (Hx1 : 1 <= r_cl x) by (unfold rec_ok in Hokx; apply andb_true_iff in Hokx; destruct Hokx as [H _]; apply Z.leb_le in H; exact H).
  pose proof (stL_cl Q HokQ) as Hlcl.
  assert (HinQ : forall r, In r Q -> In r (Q ++ [x])) by (intros; apply in_or_app; left; assumption).
  assert (Hinx : In x (Q ++ [x])) by (apply in_or_app; right; left; reflexivity).
  assert (Hmax : maxcl (Q ++ [x]) = Z.max (maxcl Q) (r_cl x)) by (rewrite maxcl_app, maxcl_cons, maxcl_nil; lia).
  assert (HclQ : forall r, In r Q -> r_cl r <= maxcl Q) by (intros; apply maxcl_ub; assumption).
  (* re-usable: everything of Q stays accounted when the state does not change and the maximum stays *)
  assert (Hkeep : maxcl (Q ++ [x]) = maxcl Q ->
                  forall r, In r Q -> live_row (stL Q) r = true \/ (exists r', In r' (Q ++ [x]) /\ sdom r r' = true) \/ pending (Q ++ [x]) r).
  { intros HM r Hr. destruct (Hacc r Hr) as [Hl|[[r' [Hr' Hs]]|[Hp1 [Hp2 Hp3]]]].
    - left. exact Hl.
    - right. left. exists r'. split; [apply HinQ, Hr'|exact Hs].
    - right. right. unfold pending. rewrite HM. repeat split; assumption. }
  assert (Habove : maxcl Q < r_cl x -> forall r, In r Q -> exists r', In r' (Q ++ [x]) /\ sdom r r' = true).
  { intros Hlt r Hr. exists x. split; [exact Hinx|]. apply sdom_cl. pose proof (HclQ r Hr). lia. }
  assert (Hownkeep : col_owner (Q ++ [x]) (stL Q)).
  { intros s c Hs Hc. destruct (Hown s c Hs Hc) as [r0 [Hr0 H]]. exists r0. split; [apply HinQ, Hr0|exact H]. }
  rewrite stL_snoc. unfold merge_row. cbv zeta. rewrite Hlcl.
  destruct (r_cl x <? maxcl Q) eqn:E1.
  { (* older generation: ignored *)
    apply Z.ltb_lt in E1. split; [exact Hownkeep|].
    assert (HM : maxcl (Q ++ [x]) = maxcl Q) by lia.
    intros r Hr. apply in_app_or in Hr. destruct Hr as [Hr|[<-|[]]]; [apply Hkeep; assumption|].
    right. left. destruct Q as [|q Q']; [rewrite maxcl_nil in E1; lia|].
    destruct (maxcl_attained (q :: Q')) as [r' [Hr' He]]; [discriminate|apply ok_pos, HokQ|].
    exists r'. split; [apply HinQ, Hr'|apply sdom_cl; lia]. }
  apply Z.ltb_ge in E1.
  destruct (Z.even (r_cl x)) eqn:Eev.
  { destruct (r_cl x =? maxcl Q) eqn:E2.
    - (* a delete of the current generation: ignored *)
      apply Z.eqb_eq in E2. split; [exact Hownkeep|].
      assert (HM : maxcl (Q ++ [x]) = maxcl Q) by lia.
      intros r Hr. apply in_app_or in Hr. destruct Hr as [Hr|[<-|[]]]; [apply Hkeep; assumption|].
      destruct Q as [|q Q']; [rewrite maxcl_nil in E2; lia|].
      destruct (maxcl_attained (q :: Q')) as [r' [Hr' He]]; [discriminate|apply ok_pos, HokQ|].
      destruct (rec_eqb x r') eqn:Eq.
      + apply rec_eqb_eq in Eq. subst r'. apply Hkeep; assumption.
      + exfalso. pose proof (Htie x r' Hinx (HinQ _ Hr')) as Ht. unfold tie in Ht.
        rewrite (Hrow x Hinx), (Hrow r' (HinQ _ Hr')), Z.eqb_refl, Eq, Eev in Ht.
        replace (r_cl x =? r_cl r') with true in Ht by (symmetry; apply Z.eqb_eq; lia). cbn in Ht. discriminate.
    - (* a delete of a newer generation *)
      apply Z.eqb_neq in E2. assert (Hlt : maxcl Q < r_cl x) by lia. split.
      + intros s c Hs Hc. inversion Hs; subst s. cbn in Hc. discriminate.
      + intros r Hr. apply in_app_or in Hr. destruct Hr as [Hr|[<-|[]]].
        * right. left. apply Habove; assumption.
        * left. unfold live_row. rewrite Eev, orb_true_r. cbn [rw_sent]. apply clk_eqb_refl. }
  destruct (r_sent x) eqn:Es.
  { destruct (r_cl x =? maxcl Q) eqn:E2.
    - (* a marker of the current generation: ignored *)
      apply Z.eqb_eq in E2. split; [exact Hownkeep|].
      assert (HM : maxcl (Q ++ [x]) = maxcl Q) by lia.
      intros r Hr. apply in_app_or in Hr. destruct Hr as [Hr|[<-|[]]]; [apply Hkeep; assumption|].
      right. right. unfold pending. rewrite HM. repeat split; [exact Es|apply odd_even_false, Eev|exact E2].
    - apply Z.eqb_neq in E2. assert (Hlt : maxcl Q < r_cl x) by lia. split.
      + intros s c Hs Hc. inversion Hs; subst s. cbn [rw_col rw_cl] in *.
        destruct (stL Q) as [s0|] eqn:Est; [|discriminate].
        destruct (rw_col s0) as [c0|] eqn:Ec0; [|discriminate]. inversion Hc; subst c. cbn [c_val c_colv c_clk].
        destruct (Hown s0 c0 eq_refl Ec0) as [r0 [Hr0 [Hd [Hk [Hv Hcv]]]]].
        exists r0. split; [apply HinQ, Hr0|]. repeat split; try assumption.
        right. split; [reflexivity|]. pose proof (HclQ r0 Hr0). lia.
      + intros r Hr. apply in_app_or in Hr. destruct Hr as [Hr|[<-|[]]].
        * right. left. apply Habove; assumption.
        * left. unfold live_row. rewrite Es. cbn [orb rw_sent]. apply clk_eqb_refl. }
  assert (Hdx : is_data x = true) by (unfold is_data; rewrite Es, (odd_even_false _ Eev); reflexivity).
  destruct (maxcl Q <? r_cl x) eqn:E3.
  { (* first sight / resurrection by a value record *)
    apply Z.ltb_lt in E3. split.
    + intros s c Hs Hc. inversion Hs; subst s. cbn [rw_col rw_cl] in *. inversion Hc; subst c. cbn [c_val c_colv c_clk].
      exists x. split; [exact Hinx|]. repeat split; try assumption. left. split; reflexivity.
    + intros r Hr. apply in_app_or in Hr. destruct Hr as [Hr|[<-|[]]].
      * right. left. apply Habove; assumption.
      * left. unfold live_row. rewrite Es, Eev. cbn [orb rw_col c_clk]. apply clk_eqb_refl. }
  apply Z.ltb_ge in E3. assert (E2 : r_cl x = maxcl Q) by lia.
  assert (HM : maxcl (Q ++ [x]) = maxcl Q) by lia.
  destruct (stL Q) as [s|] eqn:Est.
  2:{ exfalso. cbn [local_cl] in Hlcl. lia. }
  cbn [local_cl] in Hlcl.
  destruct (cid_wins (rw_col s) x) eqn:Ew.
  - (* the value wins the cell *)
    split.
    + intros s' c Hs Hc. inversion Hs; subst s'. cbn [rw_col rw_cl] in *. inversion Hc; subst c. cbn [c_val c_colv c_clk].
      exists x. split; [exact Hinx|]. repeat split; try assumption. left. split; [reflexivity|lia].
    + intros r Hr. apply in_app_or in Hr. destruct Hr as [Hr|[<-|[]]].
      2:{ left. unfold live_row. rewrite Es, Eev. cbn [orb rw_col c_clk]. apply clk_eqb_refl. }
      destruct (Hacc r Hr) as [Hl|[[r' [Hr' Hs']]|[Hp1 [Hp2 Hp3]]]].
      * unfold live_row in Hl |- *. destruct (r_sent r || Z.even (r_cl r)) eqn:Ek; [left; exact Hl|].
        (* r owned the cell *)
        right. left. exists x. split; [exact Hinx|].
        destruct (rw_col s) as [c|] eqn:Ec; [|discriminate].
        destruct (Hown s c eq_refl Ec) as [r0 [Hr0 [Hd0 [Hk0 [Hv0 Hcv0]]]]].
        apply clk_eqb_eq in Hl.
        assert (r0 = r).
        { destruct (rec_eqb r0 r) eqn:Eq; [apply rec_eqb_eq, Eq|]. exfalso.
          pose proof (Hclk r0 r (HinQ _ Hr0) (HinQ _ Hr)) as Hc. unfold clk_clash in Hc.
          rewrite Hk0, Hl, clk_eqb_refl, Eq in Hc. discriminate. }
        subst r0. unfold sdom. destruct Hcv0 as [[Hcv Hcl]|[Hcv Hcl]].
        -- replace (r_cl r =? r_cl x) with true by (symmetry; apply Z.eqb_eq; lia).
           rewrite Hd0, Hdx. unfold is_data in Hd0. apply andb_true_iff in Hd0. destruct Hd0 as [_ Hodd]. rewrite Hodd.
           apply orb_true_iff; right. cbn [andb negb orb].
           unfold cid_wins in Ew. unfold key3_lt. rewrite <- Hcv, <- Hv0.
           destruct (c_colv c <? r_colv x) eqn:A1; [reflexivity|].
           destruct (r_colv x <? c_colv c) eqn:A2; [discriminate|].
           apply Z.ltb_ge in A1, A2. replace (c_colv c =? r_colv x) with true by (symmetry; apply Z.eqb_eq; lia). cbn.
           destruct (c_val c <? r_val x) eqn:A3; [reflexivity|].
           destruct (r_val x <? c_val c) eqn:A4; [discriminate|].
           apply Z.ltb_ge in A3, A4. replace (c_val c =? r_val x) with true by (symmetry; apply Z.eqb_eq; lia). cbn.
           rewrite <- Hk0 in Ew. cbn [rclk k_site] in Ew. exact Ew.
        -- apply orb_true_iff; left. apply Z.ltb_lt. lia.
      * right. left. exists r'. split; [apply HinQ, Hr'|exact Hs'].
      * right. right. unfold pending. rewrite HM. repeat split; assumption.
  - (* the value loses against the cell *)
    split; [exact Hownkeep|].
    intros r Hr. apply in_app_or in Hr. destruct Hr as [Hr|[<-|[]]]; [apply Hkeep; assumption|].
    destruct (rw_col s) as [c|] eqn:Ec; [|cbn in Ew; discriminate].
    destruct (Hown s c eq_refl Ec) as [r0 [Hr0 [Hd0 [Hk0 [Hv0 Hcv0]]]]].
    assert (Hcvx : 1 <= r_colv x).
    { unfold rec_ok in Hokx. apply andb_true_iff in Hokx. destruct Hokx as [_ H]. rewrite Es in H. cbn in H. apply Z.leb_le in H. exact H. }
    unfold cid_wins in Ew.
    destruct (c_colv c <? r_colv x) eqn:A1; [discriminate|]. apply Z.ltb_ge in A1.
    destruct Hcv0 as [[Hcv Hcl]|[Hcv Hcl]]; [|lia].
    destruct (rec_eqb x r0) eqn:Eq.
    { apply rec_eqb_eq in Eq. subst r0. apply Hkeep; assumption. }
    right. left. exists r0. split; [apply HinQ, Hr0|].
    unfold sdom. replace (r_cl x =? r_cl r0) with true by (symmetry; apply Z.eqb_eq; lia).
    rewrite Hd0, Hdx, (odd_even_false _ Eev). apply orb_true_iff; right. cbn [andb negb orb].
    unfold key3_lt. rewrite <- Hcv, <- Hv0.
    destruct (r_colv x <? c_colv c) eqn:A2; [reflexivity|]. apply Z.ltb_ge in A2.
    replace (r_colv x =? c_colv c) with true by (symmetry; apply Z.eqb_eq; lia). cbn.
    destruct (c_val c <? r_val x) eqn:A3; [discriminate|]. apply Z.ltb_ge in A3.
    destruct (r_val x <? c_val c) eqn:A4; [reflexivity|]. apply Z.ltb_ge in A4.
    replace (r_val x =? c_val c) with true by (symmetry; apply Z.eqb_eq; lia). cbn.
    rewrite <- Hk0 in Ew. cbn [rclk k_site] in Ew. apply Z.ltb_ge in Ew.
    destruct (r_site x <? r_site r0) eqn:A5; [reflexivity|]. apply Z.ltb_ge in A5. exfalso.
    pose proof (Htie x r0 Hinx (HinQ _ Hr0)) as Ht. unfold tie in Ht.
    rewrite (Hrow x Hinx), (Hrow r0 (HinQ _ Hr0)), Z.eqb_refl, Eq, Eev, Hdx, Hd0 in Ht.
    replace (r_cl x =? r_cl r0) with true in Ht by (symmetry; apply Z.eqb_eq; lia).
    replace (r_colv x =? r_colv r0) with true in Ht by (symmetry; apply Z.eqb_eq; lia).
    replace (r_val x =? r_val r0) with true in Ht by (symmetry; apply Z.eqb_eq; lia).
    replace (r_site x =? r_site r0) with true in Ht by (symmetry; apply Z.eqb_eq; lia).
    cbn in Ht. discriminate.
Qed.

Lemma pairwise_prefix f (Q : list rec) x : pairwise f (Q ++ [x]) -> pairwise f Q.
Proof. intros H r r' Hr Hr'. apply H; apply in_or_app; left; assumption. Qed.

Lemma live_all (Q : list rec) :
  (forall r, In r Q -> r_row r = k) -> forallb rec_ok Q = true ->
  pairwise tie Q -> pairwise clk_clash Q ->
  col_owner Q (stL Q) /\ accounted Q (stL Q).
Proof.
  induction Q as [|x Q IH] using rev_ind; intros Hrow Hok Htie Hclk.
  - split; [intros s c Hs; discriminate|intros r []].
  - assert (HokQ : forallb rec_ok Q = true) by (rewrite forallb_app in Hok; apply andb_true_iff in Hok; apply Hok).
    destruct IH as [Ho Ha]; [intros r Hr; apply Hrow, in_or_app; left; exact Hr|exact HokQ|
                            eapply pairwise_prefix, Htie|eapply pairwise_prefix, Hclk|].
    apply live_step; assumption.
Qed.

End Row.

(* a merged record that the row no longer attributes a clock row to is strictly below another
   merged record, or is a marker of the newest merged generation *)
Theorem not_live_is_below (Q : list rec) k r :
  (forall r, In r Q -> r_row r = k) -> forallb rec_ok Q = true ->
  pairwise tie Q -> pairwise clk_clash Q ->
  In r Q -> live_row (stL Q) r = false ->
  (exists r', In r' Q /\ sdom r r' = true) \/ pending Q r.
Proof.
  intros Hrow Hok Htie Hclk Hr Hl.
  destruct (live_all k Q Hrow Hok Htie Hclk) as [_ Ha].
  destruct (Ha r Hr) as [H|H]; [rewrite H in Hl; discriminate|exact H].
Qed.
