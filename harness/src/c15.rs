//! C15: schema submissions through the real api_v1_db_schema on a real agent with data.
use crate::{agentkit, util::Toks};
use klukai_agent::api::public::{api_v1_db_schema, api_v1_transactions, TimeoutParams};
use klukai_types::{
    api::Statement,
    schema::{init_schema, Schema, SqliteType},
};

struct Col { name: String, ty: String, notnull: bool, dflt: String, fk: bool }
struct Idx { name: String, unique: bool, cols: Vec<String> }
struct Tab { name: String, cols: Vec<Col>, pk: Vec<String>, pkstyle: u8, idxs: Vec<Idx> }

fn dflt_sql(d: &str) -> Option<&'static str> {
    match d { "-" => None, "0" => Some("0"), "1" => Some("1"), "s" => Some("''"), "n" => Some("NULL"), x => panic!("bad default {x}") }
}

fn parse_tab(t: &mut Toks) -> Option<Tab> {
    match t.tok() {
        "B" => None,
        "T" => {
            let name = t.tok().to_string();
            let nc = t.usize();
            let cols = (0..nc)
                .map(|_| Col { name: t.tok().to_string(), ty: t.tok().to_string(), notnull: t.u64() == 1, dflt: t.tok().to_string(), fk: t.u64() == 1 })
                .collect();
            let npk = t.usize();
            let pk = (0..npk).map(|_| t.tok().to_string()).collect();
            let pkstyle = t.u64() as u8;
            let ni = t.usize();
            let idxs = (0..ni)
                .map(|_| {
                    let name = t.tok().to_string();
                    let unique = t.u64() == 1;
                    let k = t.usize();
                    Idx { name, unique, cols: (0..k).map(|_| t.tok().to_string()).collect() }
                })
                .collect();
            Some(Tab { name, cols, pk, pkstyle, idxs })
        }
        x => panic!("bad table token {x}"),
    }
}

fn tab_sql(tb: &Tab) -> Vec<String> {
    let mut defs = vec![];
    for c in &tb.cols {
        let mut d = format!("{} {}", c.name, match c.ty.as_str() { "I" => "INTEGER", "T" => "TEXT", "R" => "REAL", "B" => "BLOB", _ => "ANY" });
        if c.notnull { d.push_str(" NOT NULL"); }
        if tb.pkstyle == 1 && tb.pk.len() == 1 && tb.pk[0] == c.name { d.push_str(" PRIMARY KEY"); }
        if let Some(x) = dflt_sql(&c.dflt) { d.push_str(&format!(" DEFAULT {x}")); }
        if c.fk { d.push_str(" REFERENCES tests (id)"); }
        defs.push(d);
    }
    if !(tb.pkstyle == 1 && tb.pk.len() == 1) && !tb.pk.is_empty() {
        defs.push(format!("PRIMARY KEY ({})", tb.pk.join(", ")));
    }
    let mut out = vec![format!("CREATE TABLE {} ({})", tb.name, defs.join(", "))];
    for i in &tb.idxs {
        out.push(format!("CREATE {}INDEX {} ON {} ({})", if i.unique { "UNIQUE " } else { "" }, i.name, tb.name, i.cols.join(", ")));
    }
    out
}

fn ty_of(t: SqliteType) -> &'static str {
    match t { SqliteType::Integer => "I", SqliteType::Text => "T", SqliteType::Real => "R", SqliteType::Blob => "B", SqliteType::Numeric => "N", SqliteType::Null => "0" }
}

fn norm_default(d: Option<&str>) -> String {
    match d { None => "-".into(), Some(x) => { let x = x.trim(); if x == "''" || x == "\"\"" { "s".into() } else if x.eq_ignore_ascii_case("null") { "n".into() } else { x.to_string() } } }
}

/// user tables (names starting with 's') of a Schema value
fn schema_struct(s: &Schema) -> String {
    let mut tabs: Vec<String> = vec![];
    for (name, t) in s.tables.iter() {
        if !name.starts_with('s') { continue; }
        let mut cols: Vec<String> = t.columns.values().map(|c| format!("{}:{}:{}:{}:{}", c.name, ty_of(c.sql_type.0), if c.nullable { 0 } else { 1 }, norm_default(c.default_value.as_deref()), if c.primary_key { 1 } else { 0 })).collect();
        cols.sort();
        let mut idx: Vec<String> = t.indexes.values().map(|i| format!("{}:{}:{}", i.name, if i.unique { 1 } else { 0 }, i.columns.iter().map(|c| c.expr.to_string()).collect::<Vec<_>>().join("."))).collect();
        idx.sort();
        tabs.push(format!("{}[{}](pk={})(idx={})", name, cols.join(","), t.pk.iter().cloned().collect::<Vec<_>>().join("."), idx.join(";")));
    }
    tabs.sort();
    tabs.join("|")
}

fn db_struct(conn: &rusqlite::Connection) -> (String, String) {
    let names: Vec<String> = conn
        .prepare("SELECT name FROM sqlite_schema WHERE type = 'table' AND name GLOB 's[0-9]*' AND name NOT LIKE '%crsql%' ORDER BY name")
        .unwrap()
        .query_map([], |r| r.get(0))
        .unwrap()
        .map(|x| x.unwrap())
        .collect();
    let mut tabs = vec![];
    let mut rows = vec![];
    for n in names {
        let mut cols: Vec<(String, String, i64)> = conn
            .prepare(&format!("PRAGMA table_info({n})"))
            .unwrap()
            .query_map([], |r| {
                let name: String = r.get(1)?;
                let ty: String = r.get(2)?;
                let nn: i64 = r.get(3)?;
                let d: Option<String> = r.get(4)?;
                let pk: i64 = r.get(5)?;
                let t = match ty.as_str() { "INTEGER" => "I", "TEXT" => "T", "REAL" => "R", "BLOB" => "B", _ => "R" };
                Ok((name.clone(), format!("{}:{}:{}:{}:{}", name, t, nn, norm_default(d.as_deref()), if pk > 0 { 1 } else { 0 }), pk))
            })
            .unwrap()
            .map(|x| x.unwrap())
            .collect();
        let mut pk: Vec<(i64, String)> = cols.iter().filter(|c| c.2 > 0).map(|c| (c.2, c.0.clone())).collect();
        pk.sort();
        let order: Vec<String> = cols.iter().map(|c| c.0.clone()).collect();
        cols.sort();
        let mut idx: Vec<String> = conn
            .prepare(&format!("SELECT name, sql FROM sqlite_schema WHERE type = 'index' AND tbl_name = '{n}' AND sql IS NOT NULL"))
            .unwrap()
            .query_map([], |r| {
                let name: String = r.get(0)?;
                let sql: String = r.get(1)?;
                let u = sql.to_ascii_uppercase().contains("UNIQUE");
                let inner = sql[sql.rfind('(').unwrap() + 1..sql.rfind(')').unwrap()].replace(' ', "").replace(',', ".");
                Ok(format!("{}:{}:{}", name, if u { 1 } else { 0 }, inner))
            })
            .unwrap()
            .map(|x| x.unwrap())
            .collect();
        idx.sort();
        tabs.push(format!("{}[{}](pk={})(idx={})", n, cols.iter().map(|c| c.1.clone()).collect::<Vec<_>>().join(","), pk.iter().map(|p| p.1.clone()).collect::<Vec<_>>().join("."), idx.join(";")));
        // rows, columns in name order
        let mut names_sorted = order.clone();
        names_sorted.sort();
        let sql = format!("SELECT {} FROM {} ORDER BY {}", names_sorted.join(", "), n, pk.iter().map(|p| p.1.clone()).collect::<Vec<_>>().join(", "));
        let rs: Vec<String> = conn
            .prepare(&sql)
            .unwrap()
            .query_map([], |r| {
                Ok((0..names_sorted.len())
                    .map(|i| match r.get::<_, rusqlite::types::Value>(i).unwrap() {
                        rusqlite::types::Value::Null => "n".to_string(),
                        rusqlite::types::Value::Integer(i) => i.to_string(),
                        rusqlite::types::Value::Text(s) => format!("t{s}"),
                        rusqlite::types::Value::Real(f) => format!("r{f}"),
                        rusqlite::types::Value::Blob(_) => "b".to_string(),
                    })
                    .collect::<Vec<_>>()
                    .join(","))
            })
            .unwrap()
            .map(|x| x.unwrap())
            .collect();
        rows.push(format!("{}={}", n, rs.join(";")));
    }
    (tabs.join("|"), rows.join("|"))
}

/// case: schema <nsteps> { S <ntabs> {tab} | W <table> <k> {col val} }
/// obs per S step: ok=<0/1> mem=<struct> db=<struct> init=<struct> crr=<tables that are CRRs> rows=<dump>
pub fn schema(t: &mut Toks) -> String {
    let rt = tokio::runtime::Builder::new_multi_thread().worker_threads(3).enable_all().build().unwrap();
    let ns = t.usize();
    enum Op { S(Vec<Option<Tab>>), W(String, Vec<(String, String)>) }
    let mut ops = vec![];
    for _ in 0..ns {
        ops.push(match t.tok() {
            "S" => { let n = t.usize(); Op::S((0..n).map(|_| parse_tab(t)).collect()) }
            "W" => { let tb = t.tok().to_string(); let k = t.usize(); Op::W(tb, (0..k).map(|_| (t.tok().to_string(), t.tok().to_string())).collect()) }
            x => panic!("bad op {x}"),
        });
    }
    rt.block_on(async move {
        let kit = agentkit::new_agent(|_| {}).await;
        let agent = kit.agent.clone();
        let mut outs = vec![];
        for op in ops {
            match op {
                Op::W(tb, kv) => {
                    let sql = format!(
                        "INSERT INTO {} ({}) VALUES ({})",
                        tb,
                        kv.iter().map(|x| x.0.clone()).collect::<Vec<_>>().join(", "),
                        kv.iter().map(|x| x.1.clone()).collect::<Vec<_>>().join(", ")
                    );
                    let (st, body) = api_v1_transactions(axum::Extension(agent.clone()), axum::extract::Query(TimeoutParams { timeout: None }), axum::extract::Json(vec![Statement::Simple(sql)])).await;
                    if !st.is_success() && std::env::var("VERIF_DEBUG").is_ok() {
                        eprintln!("W failed: {:?}", body.0.results);
                    }
                    let conn = agent.pool().read().await.unwrap();
                    let (_, rows) = db_struct(&conn);
                    outs.push(format!("w={} rows={}", if st.is_success() { 1 } else { 0 }, rows));
                }
                Op::S(tabs) => {
                    let mut stmts = vec![];
                    for tb in tabs.iter() {
                        match tb {
                            None => stmts.push("CREATE TABLE oops (".to_string()),
                            Some(tb) => stmts.extend(tab_sql(tb)),
                        }
                    }
                    let (st, _) = api_v1_db_schema(axum::Extension(agent.clone()), axum::Json(stmts)).await;
                    let mem = schema_struct(&agent.schema().read());
                    let conn = agent.pool().read().await.unwrap();
                    let (db, rows) = db_struct(&conn);
                    let init = match init_schema(&conn) { Ok(s) => schema_struct(&s), Err(e) => format!("ERR:{}", e.to_string().replace(' ', "_")) };
                    let crr: Vec<String> = conn
                        .prepare("SELECT name FROM sqlite_schema WHERE type = 'table' AND name GLOB 's[0-9]*__crsql_clock' ORDER BY name")
                        .unwrap()
                        .query_map([], |r| r.get::<_, String>(0))
                        .unwrap()
                        .map(|x| x.unwrap().replace("__crsql_clock", ""))
                        .collect();
                    outs.push(format!("ok={} mem={} db={} init={} crr={} rows={}", if st.is_success() { 1 } else { 0 }, mem, db, init, crr.join(","), rows));
                }
            }
        }
        outs.join(" # ")
    })
}
