(* C16 — Nodes of different clusters never exchange data.
   Decision rules (Model/ClusterGate.v) + the wire-level fact that a frame
   without a cluster id decodes to cluster 0 (Model/Wire.v, WireDescs.v). *)
From Coq Require Import List ZArith Bool Lia.
From Corro Require Import Model.ClusterGate Model.Wire Model.WireDescs Proofs.WireProofs.
Import ListNotations.
Open Scope Z_scope.

(* a broadcast change is delivered only if the frame's cluster id -- or 0 when
   the frame carries none -- equals the node's cluster id *)
Theorem C16_uni_applied_only_same_cluster : forall mine frames v,
  In v (uni_deliver mine frames) ->
  exists c, In (c, v) frames /\ frame_cluster c = mine.
Proof.
  intros mine frames v H. unfold uni_deliver in H. apply in_rev in H. apply in_map_iff in H.
  destruct H as ([c v'] & <- & Hin). apply filter_In in Hin. destruct Hin as [Hin Hacc].
  exists c. split; [exact Hin|]. unfold accept_uni in Hacc. cbn in Hacc. apply Z.eqb_eq in Hacc. auto.
Qed.
Print Assumptions C16_uni_applied_only_same_cluster.

Theorem C16_uni_same_cluster_all_delivered : forall mine frames c v,
  In (c, v) frames -> frame_cluster c = mine -> In v (uni_deliver mine frames).
Proof.
  intros mine frames c v Hin Hc. unfold uni_deliver. apply -> in_rev. apply in_map_iff.
  exists (c, v). split; [reflexivity|]. apply filter_In. split; [exact Hin|].
  unfold accept_uni. cbn. apply Z.eqb_eq. auto.
Qed.
Print Assumptions C16_uni_same_cluster_all_delivered.

(* wire level: a UniPayload/BiPayload frame cut right before its cluster id
   still decodes, with cluster id 0 (what `#[speedy(default_on_eof)]` does) *)
Theorem C16_absent_cluster_id_is_zero : forall data,
  wt d_uni_payload_v1 data = true ->
  dec d_uni_payload (le_bytes 4 0 ++ enc d_uni_payload_v1 data) = ROk (VT 0 (VP data (VN 0))) [].
Proof.
  intros data Hwt.
  change d_uni_payload with (DSum 4 [DPair d_uni_payload_v1 (DEofDefault d_cluster_id)]).
  rewrite dec_sum_single by lia.
  rewrite (dec_pair_eof_default d_uni_payload_v1 d_cluster_id data); [reflexivity| |exact Hwt|reflexivity].
  vm_compute. reflexivity.
Qed.
Print Assumptions C16_absent_cluster_id_is_zero.

(* a sync session from another cluster: the first and only answer is the rejection *)
Theorem C16_serve_rejects_other_cluster : forall mine theirs,
  mine <> theirs -> serve_first mine theirs = FirstRejectDifferentCluster.
Proof. intros mine theirs H. unfold serve_first. destruct (mine =? theirs) eqn:E; [apply Z.eqb_eq in E; contradiction|reflexivity]. Qed.
Print Assumptions C16_serve_rejects_other_cluster.

Theorem C16_serve_same_cluster : forall c, serve_first c c = FirstState.
Proof. intros c. unfold serve_first. rewrite Z.eqb_refl. reflexivity. Qed.
Print Assumptions C16_serve_same_cluster.

(* sync partners and broadcast targets all belong to the node's cluster, never itself *)
Theorem C16_partners_same_cluster : forall mine self ms a,
  In a (sync_candidates mine self ms) ->
  exists m, In m ms /\ mb_id m = a /\ mb_cluster m = mine /\ a <> self.
Proof.
  intros mine self ms a H. unfold sync_candidates in H. apply in_map_iff in H. destruct H as (m & <- & Hin).
  apply filter_In in Hin. destruct Hin as [Hin Hf]. apply andb_true_iff in Hf as [H1 H2].
  apply negb_true_iff, Z.eqb_neq in H1. apply Z.eqb_eq in H2. exists m. auto.
Qed.
Print Assumptions C16_partners_same_cluster.

Theorem C16_bcast_targets_same_cluster : forall mine self ms a,
  In a (bcast_allowed mine self ms) ->
  exists m, In m ms /\ mb_id m = a /\ mb_cluster m = mine /\ a <> self.
Proof. exact C16_partners_same_cluster. Qed.
Print Assumptions C16_bcast_targets_same_cluster.

Theorem C16_priority_targets_ring0_same_cluster : forall mine ms a,
  In a (bcast_priority mine ms) ->
  exists m, In m ms /\ mb_id m = a /\ mb_cluster m = mine /\ mb_ring0 m = true.
Proof.
  intros mine ms a H. unfold bcast_priority in H. apply in_map_iff in H. destruct H as (m & <- & Hin).
  apply filter_In in Hin. destruct Hin as [Hin Hf]. apply andb_true_iff in Hf as [H1 H2].
  apply Z.eqb_eq in H1. exists m. auto.
Qed.
Print Assumptions C16_priority_targets_ring0_same_cluster.

Example C16_nonvacuous :
  uni_deliver 0 [(Some 0, 1); (Some 5, 2); (None, 3); (Some 0, 4)] = [4; 3; 1] /\
  sync_candidates 3 99 [mkMember 100 3 true; mkMember 101 3 false; mkMember 102 0 true; mkMember 103 9 true] = [100; 101].
Proof. vm_compute. split; reflexivity. Qed.
