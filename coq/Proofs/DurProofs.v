(* C06: the durable rows every commit of the bookkeeping leaves behind satisfy DurInv, for
   every reachable state of Model/BookOps.v -- so the restart theorems (from_conn rebuilds the
   invariant, the advertisement is the exact partition) hold for a crash after ANY committed
   step of ANY history. *)
From Coq Require Import List ZArith Bool Lia.
From Corro Require Import Lib.Ivl Model.Book Model.SeqRows Model.BookOps Proofs.BookProofs Proofs.SeqRowsProofs Proofs.CrashProofs.
Import ListNotations.
Open Scope Z_scope.

Section Assoc.
  Context {V : Type}.
  Lemma aget_aset_same_g (m : list (Z * V)) k v : aget k (aset k v m) = Some v.
  Proof.
    induction m as [|[k' v'] t IH]; cbn [aset aget]; [rewrite Z.eqb_refl; reflexivity|].
    destruct (k =? k') eqn:E; [cbn [aget]; rewrite Z.eqb_refl; reflexivity|].
    destruct (k <? k'); cbn [aget]; [rewrite Z.eqb_refl; reflexivity|rewrite E; exact IH].
  Qed.
  Lemma aget_aset_other_g (m : list (Z * V)) k u v : u <> k -> aget u (aset k v m) = aget u m.
  Proof.
    intros Hne. induction m as [|[k' v'] t IH]; cbn [aset aget].
    - destruct (u =? k) eqn:E; [apply Z.eqb_eq in E; contradiction|reflexivity].
    - destruct (k =? k') eqn:E1.
      + apply Z.eqb_eq in E1. subst k'. cbn [aget]. destruct (u =? k) eqn:E; [apply Z.eqb_eq in E; contradiction|reflexivity].
      + destruct (k <? k'); cbn [aget].
        * destruct (u =? k) eqn:E; [apply Z.eqb_eq in E; contradiction|reflexivity].
        * destruct (u =? k'); [reflexivity|exact IH].
  Qed.
  Lemma aget_in (m : list (Z * V)) k v : aget k m = Some v -> In (k, v) m.
  Proof.
    induction m as [|[k' v'] t IH]; cbn [aget]; [discriminate|].
    destruct (k =? k') eqn:E; [apply Z.eqb_eq in E; subst; intros H; injection H as <-; left; reflexivity|].
    intros H. right. apply IH, H.
  Qed.
  Fixpoint ksorted (lo : Z) (m : list (Z * V)) : Prop :=
    match m with [] => True | (k, _) :: t => lo <= k /\ ksorted (k + 1) t end.
  Lemma ksorted_weaken lo lo' (m : list (Z * V)) : lo' <= lo -> ksorted lo m -> ksorted lo' m.
  Proof. destruct m as [|[k v] t]; cbn; [tauto|]. intros H [H1 H2]. split; [lia|exact H2]. Qed.
  Lemma ksorted_aset (m : list (Z * V)) : forall lo k v, ksorted lo m -> lo <= k -> ksorted lo (aset k v m).
  Proof.
    induction m as [|[k' v'] t IH]; intros lo k v Hs Hk; cbn [aset].
    - cbn. split; [exact Hk|exact I].
    - cbn in Hs. destruct Hs as [H1 H2]. destruct (k =? k') eqn:E1.
      + apply Z.eqb_eq in E1. subst k'. cbn. split; assumption.
      + apply Z.eqb_neq in E1. destruct (k <? k') eqn:E2.
        * apply Z.ltb_lt in E2. cbn. split; [exact Hk|]. split; [lia|exact H2].
        * apply Z.ltb_ge in E2. cbn. split; [exact H1|]. apply IH; [exact H2|lia].
  Qed.
  Lemma ksorted_in_aget (m : list (Z * V)) : forall lo k v, ksorted lo m -> In (k, v) m -> aget k m = Some v.
  Proof.
    induction m as [|[k' v'] t IH]; intros lo k v Hs Hin; [destruct Hin|].
    cbn in Hs. destruct Hs as [H1 H2]. cbn [aget]. destruct Hin as [Hin|Hin].
    - injection Hin as -> ->. rewrite Z.eqb_refl. reflexivity.
    - assert (Hlow : forall (m0 : list (Z * V)) lo0 k0 v0, ksorted lo0 m0 -> In (k0, v0) m0 -> lo0 <= k0).
      { induction m0 as [|[k1 v1] t1 IH1]; intros lo0 k0 v0 Hs0 Hin0; [destruct Hin0|].
        cbn in Hs0. destruct Hs0 as [Ha Hb]. destruct Hin0 as [Hin0|Hin0]; [injection Hin0 as -> _; exact Ha|].
        specialize (IH1 _ _ _ Hb Hin0). lia. }
      pose proof (Hlow _ _ _ _ H2 Hin). destruct (k =? k') eqn:E; [apply Z.eqb_eq in E; lia|].
      apply (IH _ _ _ H2 Hin).
  Qed.
End Assoc.

Lemma srow_insert_in r rs rs' : srow_insert r rs = Some rs' -> In r rs'.
Proof.
  revert rs'. induction rs as [|x t IH]; intros rs'; cbn [srow_insert].
  - intros H; injection H as <-. left. reflexivity.
  - destruct (fst (fst r) =? fst (fst x)); [discriminate|].
    destruct (fst (fst r) <? fst (fst x)); [intros H; injection H as <-; left; reflexivity|].
    destruct (srow_insert r t) as [t'|]; [|discriminate]. intros H; injection H as <-. right. apply IH. reflexivity.
Qed.

Lemma incomplete_nonempty cur s e last rows' seqs :
  incomplete_rows cur s e last = IncOk rows' seqs -> exists r, In r rows'.
Proof.
  unfold incomplete_rows. cbv zeta.
  destruct (ins s e (ins_all (map fst (filter _ cur)) [])) as [|[a b] [|x l]]; try discriminate.
  destruct (srow_insert _ _) as [rows''|] eqn:E; [|discriminate].
  intros H; injection H as <- _. eexists. apply (srow_insert_in _ _ _ E).
Qed.

(* the crsql_db_versions maximum written by an insert_db of the ranges vs *)
Definition dbmax_fold (M : Z) (vs : iset) (d : option Z) : option Z :=
  fold_left (fun d r => if M <? snd r then Some (snd r) else d) vs d.

Lemma dbmax_fold_spec M : forall vs lo d,
  canon_from lo vs ->
  let d' := dbmax_fold M vs d in
  (forall v, In v vs -> snd v <= Z.max M (max0 d')) /\
  (max0 d' = max0 d \/ (M < max0 d' /\ lo <= max0 d')).
Proof.
  induction vs as [|[a b] t IH]; intros lo d Hc; cbn [dbmax_fold fold_left].
  - split; [intros v []|left; reflexivity].
  - cbn in Hc. destruct Hc as (H1 & H2 & H3). cbn [snd].
    specialize (IH (b + 2) (if M <? b then Some b else d) H3). cbv zeta in IH. fold (dbmax_fold M t (if M <? b then Some b else d)) in *.
    set (d' := dbmax_fold M t (if M <? b then Some b else d)) in *.
    destruct IH as [IHa IHb]. destruct (M <? b) eqn:E.
    + apply Z.ltb_lt in E. cbn [max0] in IHb. split.
      * intros v [<-|Hv]; [cbn [snd]; lia|apply IHa, Hv].
      * right. lia.
    + apply Z.ltb_ge in E. split.
      * intros v [<-|Hv]; [cbn [snd]; lia|apply IHa, Hv].
      * destruct IHb as [IHb|IHb]; [left; exact IHb|right; lia].
Qed.

Lemma dbmax_fold_nonneg M : forall vs d, (forall v, In v vs -> 0 <= snd v) -> 0 <= max0 d -> 0 <= max0 (dbmax_fold M vs d).
Proof.
  induction vs as [|[a b] t IH]; intros d Hp Hd; cbn [dbmax_fold fold_left]; [exact Hd|].
  apply IH; [intros v Hv; apply Hp; right; exact Hv|].
  cbn [snd]. destruct (M <? b); [cbn; apply (Hp (a, b)); left; reflexivity|exact Hd].
Qed.

(* the combined invariant of a bookkeeping state: live invariant + what the durable rows need *)
Record Dur (st : bstate) : Prop := {
  dur_inv : Inv (st_bv st) (st_rows st);
  dur_dbmax : 0 <= max0 (st_dbmax st);
  dur_seq : forall v l r, aget v (st_seq st) = Some l -> In r l ->
            1 <= v <= max0 (maxv (st_bv st)) /\ ~ mem v (needed (st_bv st));
  dur_keys : ksorted 1 (st_seq st);
  dur_link : max0 (maxv (st_bv st)) <= max0 (st_dbmax st) \/
             exists v l r, aget v (st_seq st) = Some l /\ In r l /\ max0 (maxv (st_bv st)) <= v }.

Lemma dur_init : Dur bstate_init.
Proof.
  constructor; cbn.
  - apply Inv_init.
  - lia.
  - intros v l r H; discriminate.
  - exact I.
  - left. lia.
Qed.

Lemma insert_partial_same b v p : 1 <= v <= max0 (maxv b) ->
  needed (fst (insert_partial b v p)) = needed b /\ max0 (maxv (fst (insert_partial b v p))) = max0 (maxv b).
Proof.
  intros Hv. unfold insert_partial. destruct (aget v (partials b)); cbn [fst needed maxv]; split; try reflexivity.
  destruct (maxv b) as [m|]; cbn in *; lia.
Qed.

Lemma dur_step st op : Dur st -> op_ok op -> Dur (fst (bstep st op)).
Proof.
  intros [HI Hd Hseq Hks Hlink] Hop. destruct op as [raw|v s e last|]; [| |destruct Hop]; cbn [bstep].
  - (* insert_db of complete / cleared versions *)
    cbn in Hop.
    assert (Hokraw : ranges_ok raw).
    { unfold ranges_ok. rewrite Forall_forall in *. intros r Hr. specialize (Hop r Hr). lia. }
    assert (Hcan : canonical (ins_all raw [])) by (apply norm_canonical; exact Hokraw).
    assert (Hwf : wf_vs (ins_all raw [])).
    { split; [exact Hcan|].
      apply canonical_fst_ge; [exact Hcan|].
      intros x Hx. apply (norm_mem raw x Hokraw) in Hx. apply mem_In in Hx.
      destruct Hx as (t & Ht & Hx). rewrite Forall_forall in Hop. specialize (Hop t Ht). lia. }
    set (vs := ins_all raw []) in *.
    destruct (insert_db_ok _ _ _ HI Hwf) as (b' & Heq & HI' & Hspec & Hmono & Hsnd & _ & Hleast).
    rewrite Heq. cbn [fst st_bv st_rows st_seq st_dbmax].
    set (M := max0 (maxv (st_bv st))) in *.
    change (fold_left (fun (d : option Z) (r : Z * Z) => if M <? snd r then Some (snd r) else d) vs (st_dbmax st))
      with (dbmax_fold M vs (st_dbmax st)).
    pose proof (wf_vs_ranges vs Hwf) as Hrng. rewrite Forall_forall in Hrng.
    destruct Hcan as [lo Hlo].
    destruct (dbmax_fold_spec M vs lo (st_dbmax st) Hlo) as [Hfa Hfb].
    set (d' := dbmax_fold M vs (st_dbmax st)) in *.
    assert (Hmax' : max0 (maxv b') <= Z.max M (max0 d')) by (apply Hleast; [lia|exact Hfa]).
    constructor; cbn [st_bv st_rows st_seq st_dbmax].
    + exact HI'.
    + apply dbmax_fold_nonneg; [intros r Hr; specialize (Hrng r Hr); lia|exact Hd].
    + intros u l r Hg Hr. destruct (Hseq u l r Hg Hr) as [Hu Hn]. split; [lia|].
      intros Hm. apply Hspec in Hm. destruct Hm as [[Hm|(vr & _ & Hg')] _]; [exact (Hn Hm)|].
      unfold gapx in Hg'. fold M in Hg'. lia.
    + exact Hks.
    + destruct (Z_lt_le_dec M (max0 d')) as [Hlt|Hle]; [left; lia|].
      assert (Hsame : max0 d' = max0 (st_dbmax st)) by (destruct Hfb as [H|[H _]]; [exact H|lia]).
      destruct Hlink as [Hl|(u & l & r & Hg & Hr & Hu)]; [left; lia|right; exists u, l, r; repeat split; try assumption; lia].
  - (* one chunk of an incomplete version *)
    cbn in Hop. destruct Hop as [Hv Hse].
    set (cur := match aget v (st_seq st) with Some l => l | None => [] end).
    destruct (incomplete_rows cur s e last) as [rows' seqs| |] eqn:Einc; cbn [fst];
      [|constructor; assumption|constructor; assumption].
    assert (Hwf : wf_vs [(v, v)]).
    { split; [exists v; cbn; lia|constructor; [cbn; lia|constructor]]. }
    destruct (insert_db_ok _ _ _ HI Hwf) as (b' & Heq & HI' & Hspec & Hmono & Hsnd & _ & Hleast).
    rewrite Heq.
    assert (Hvle : 1 <= v <= max0 (maxv b')) by (specialize (Hsnd (v, v) (or_introl eq_refl)); cbn in Hsnd; lia).
    assert (Hvn : ~ mem v (needed b')) by (intros Hm; apply Hspec in Hm; destruct Hm as [_ Hn]; apply Hn; cbn; lia).
    pose proof (insert_partial_inv b' (needed b') v (mkPartial seqs last) HI' Hvle Hvn) as HI''.
    destruct (insert_partial_same b' v (mkPartial seqs last) Hvle) as [Hn'' Hm''].
    destruct (insert_partial b' v (mkPartial seqs last)) as [b'' q] eqn:Eip. cbn [fst] in *.
    set (M := max0 (maxv (st_bv st))) in *.
    assert (Hmax' : max0 (maxv b') <= Z.max M v).
    { apply Hleast; [lia|]. intros w [<-|[]]. cbn. lia. }
    destruct (incomplete_nonempty _ _ _ _ _ _ Einc) as [r0 Hr0].
    constructor; cbn [st_bv st_rows st_seq st_dbmax].
    + exact HI''.
    + exact Hd.
    + intros u l r Hg Hr. rewrite Hn'', Hm''.
      destruct (Z.eq_dec u v) as [->|Hne]; [split; assumption|].
      rewrite aget_aset_other_g in Hg by exact Hne.
      destruct (Hseq u l r Hg Hr) as [Hu Hn]. split; [lia|].
      intros Hm. apply Hspec in Hm. destruct Hm as [[Hm|(vr & Hvr & Hg')] _]; [exact (Hn Hm)|].
      unfold gapx in Hg'. fold M in Hg'. lia.
    + apply ksorted_aset; [exact Hks|lia].
    + rewrite Hm''. destruct (Z_le_gt_dec M v) as [Hle|Hgt].
      * right. exists v, rows', r0. rewrite aget_aset_same_g. repeat split; [exact Hr0|lia].
      * destruct Hlink as [Hl|(u & l & r & Hg & Hr & Hu)]; [left; lia|].
        right. exists u, l, r. rewrite aget_aset_other_g by lia. repeat split; try assumption. lia.
Qed.

Lemma seqrows_flat_in (m : list (Z * list srow)) r :
  In r (seqrows_flat m) -> exists l sr, In (sr_version r, l) m /\ In sr l.
Proof.
  unfold seqrows_flat. intros H. apply in_flat_map in H. destruct H as [[v l] [Hvl H]]. cbn [fst snd] in H.
  apply in_map_iff in H. destruct H as [sr [<- Hsr]]. cbn [sr_version]. exists l, sr. split; assumption.
Qed.

Theorem dur_durinv st : Dur st -> DurInv (st_dbmax st) (seqrows_flat (st_seq st)) (st_rows st).
Proof.
  intros [HI Hd Hseq Hks Hlink]. destruct HI as [Hc Hrows HM Hrange Hpart Hkeys].
  assert (Hrow : forall r, In r (seqrows_flat (st_seq st)) ->
            1 <= sr_version r <= max0 (maxv (st_bv st)) /\ ~ mem (sr_version r) (needed (st_bv st))).
  { intros r Hr. apply seqrows_flat_in in Hr. destruct Hr as (l & sr & Hin & Hsr).
    apply (Hseq (sr_version r) l sr); [apply (ksorted_in_aget _ 1); assumption|exact Hsr]. }
  constructor.
  - rewrite Hrows. exact Hc.
  - exact Hd.
  - apply Forall_forall. intros r Hr. apply (Hrow r Hr).
  - intros r Hr. rewrite Hrows. apply (Hrow r Hr).
  - intros x Hx. rewrite Hrows in Hx. specialize (Hrange x Hx). split; [lia|].
    destruct Hlink as [Hl|(v & l & sr & Hg & Hsr & Hv)]; [left; lia|].
    right. exists (mkSeqRow v (fst (fst sr)) (snd (fst sr)) (snd sr)). split; [|cbn; lia].
    unfold seqrows_flat. apply in_flat_map. exists (v, l). split; [apply aget_in, Hg|].
    cbn [fst snd]. apply in_map_iff. exists sr. split; [reflexivity|exact Hsr].
Qed.

Definition brun (ops : list bop) : bstate := fold_left (fun st op => fst (bstep st op)) ops bstate_init.

Theorem dur_reachable ops : Forall op_ok ops -> Dur (brun ops).
Proof.
  unfold brun. generalize dur_init. generalize bstate_init.
  induction ops as [|op ops IH]; intros st HD Hok; cbn [fold_left]; [exact HD|].
  inversion Hok as [|? ? Hop Hrest]. subst. apply IH; [apply dur_step; assumption|exact Hrest].
Qed.

(* a crash after any committed step of any history: what the restart rebuilds from the durable
   rows satisfies the bookkeeping invariant with exactly the durable gap rows *)
Theorem crash_anywhere_restart_inv ops :
  Forall op_ok ops -> let st := brun ops in Inv (reload st) (st_rows st).
Proof. intros Hok st. apply from_conn_inv, dur_durinv, dur_reachable, Hok. Qed.
