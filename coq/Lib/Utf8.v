(* UTF-8 well-formedness (Unicode table 3-7), the predicate std::str::from_utf8
   decides. Bytes are integers 0..255. *)
From Coq Require Import List ZArith Bool.
Import ListNotations.
Open Scope Z_scope.

Definition inr (lo hi b : Z) : bool := (lo <=? b) && (b <=? hi).
Definition cont (b : Z) : bool := inr 128 191 b.

Fixpoint utf8_valid (bs : list Z) : bool :=
  match bs with
  | [] => true
  | b0 :: r0 =>
    if inr 0 127 b0 then utf8_valid r0
    else match r0 with
    | [] => false
    | b1 :: r1 =>
      if inr 194 223 b0 then cont b1 && utf8_valid r1
      else match r1 with
      | [] => false
      | b2 :: r2 =>
        if (b0 =? 224) then inr 160 191 b1 && cont b2 && utf8_valid r2
        else if inr 225 236 b0 || inr 238 239 b0 then cont b1 && cont b2 && utf8_valid r2
        else if (b0 =? 237) then inr 128 159 b1 && cont b2 && utf8_valid r2
        else match r2 with
        | [] => false
        | b3 :: r3 =>
          if (b0 =? 240) then inr 144 191 b1 && cont b2 && cont b3 && utf8_valid r3
          else if inr 241 243 b0 then cont b1 && cont b2 && cont b3 && utf8_valid r3
          else if (b0 =? 244) then inr 128 143 b1 && cont b2 && cont b3 && utf8_valid r3
          else false
        end
      end
    end
  end.
