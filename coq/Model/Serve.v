(* Model of the sync server side, crates/klukai-agent/src/api/peer/mod.rs:
   process_sync (the filter on needs), handle_need (Full and Partial) and
   send_change_chunks, over an abstraction of the server database for ONE
   origin actor:
     live     versions with live rows in crsql_changes (site_id = actor), rows by seq
     gaps     __corro_bookkeeping_gaps
     buffered __corro_buffered_changes per version, rows by seq
     seqrows  __corro_seq_bookkeeping per version
     needed/max  the in-memory bookkeeping process_sync consults *)
From Coq Require Import List ZArith Bool.
From Corro Require Import Lib.Ivl Model.Chunk Model.SeqRows Gen.Consts Gen.NeedSql.
Import ListNotations.
Open Scope Z_scope.

Definition row := (Z * Z)%type.      (* (seq, payload id) *)

Record srv := mkSrv {
  sv_live : list (Z * list row);
  sv_gaps : iset;
  sv_buf : list (Z * list row);
  sv_seq : list (Z * list srow);
  sv_needed : iset;
  sv_max : option Z;
  sv_rowsize : Z }.                  (* estimated_byte_size of the rows (uniform in the harness) *)

Inductive msg :=
| MFull (v : Z) (rows : list row) (s e last : Z)
| MEmpty (lo hi : Z).

Fixpoint vget {V} (k : Z) (m : list (Z * V)) : option V :=
  match m with [] => None | (k', v) :: t => if k =? k' then Some v else vget k t end.

Definition maxseq (rows : list row) : Z := fold_left (fun m r => Z.max m (fst r)) rows 0.

Definition in_range (a b : Z) (r : row) : bool := (a <=? fst r) && (fst r <=? b).

(* send_change_chunks over ChunkedChanges::new(rows, start, end, MAX_CHANGES_BYTES_PER_MESSAGE) *)
Definition send_chunks (rowsize : Z) (v last : Z) (rows : list row) (a b : Z) : list msg :=
  let cs := map (fun r => mkChg (fst r) rowsize (snd r)) rows in
  let chunks := fst (run (repeat max_changes_bytes_per_message (S (length rows))) (start_cursor cs a b)) in
  (fix go (l : list chunk) : list msg :=
     match l with
     | [] => []
     | (c, (x, y)) :: t =>
       match c with
       | [] => if (x =? 0) && (y =? last) then []      (* "got an empty changes we should've had": return *)
               else MFull v [] x y last :: go t
       | _ => MFull v (map (fun g => (c_seq g, c_id g)) c) x y last :: go t
       end
     end) chunks.

Definition zrange (lo hi : Z) : list Z := map (fun i => lo + Z.of_nat i) (seq 0 (Z.to_nat (hi - lo + 1))).

Definition empties_msgs (vs : list Z) : list msg :=
  map (fun r => MEmpty (fst r) (snd r)) (ins_all (map (fun v => (v, v)) vs) []).

Definition buffered_msgs (sv : srv) (v : Z) (restrict : option (Z * Z)) : list msg :=
  let buf := match vget v (sv_buf sv) with Some b => b | None => [] end in
  let rows := match vget v (sv_seq sv) with Some r => r | None => [] end in
  flat_map (fun sr : srow =>
    let '(rs, re, last) := sr in
    match restrict with
    | None => send_chunks (sv_rowsize sv) v last (filter (in_range rs re) buf) rs re
    | Some (qs, qe) =>
      (* the four-case overlap SELECT of the Partial path (no adjacency) *)
      if need_overlap_pred_src rs re qs qe   (* GENERATED from the SQL text: Gen/NeedSql.v *)
      then let cs := Z.max rs qs in let ce := Z.min re qe in
           send_chunks (sv_rowsize sv) v last (filter (in_range cs ce) buf) cs ce
      else []
    end) rows.

Definition handle_need_full (sv : srv) (s e : Z) : list msg :=
  let versions := zrange s e in
  let live_desc := rev (filter (fun v => match vget v (sv_live sv) with Some _ => true | None => false end) versions) in
  let live_msgs := flat_map (fun v =>
      match vget v (sv_live sv) with
      | Some rows => send_chunks (sv_rowsize sv) v (maxseq rows) rows 0 (maxseq rows)
      | None => [] end) live_desc in
  let rest := filter (fun v => match vget v (sv_live sv) with Some _ => false | None => true end) versions in
  let buffered v := match vget v (sv_buf sv) with Some (_ :: _) => true | _ => false end in
  let buf_msgs := flat_map (fun v => if buffered v then buffered_msgs sv v None else []) rest in
  let empties := filter (fun v => negb (buffered v) && negb (memb v (sv_gaps sv))) rest in
  live_msgs ++ buf_msgs ++ empties_msgs empties.

Definition handle_need_partial (sv : srv) (v : Z) (seqs : list (Z * Z)) : list msg :=
  match vget v (sv_live sv) with
  | Some rows =>
    let last := maxseq rows in
    flat_map (fun q => send_chunks (sv_rowsize sv) v last (filter (in_range (fst q) (snd q)) rows) (fst q) (snd q)) seqs
  | None =>
    let buffered := match vget v (sv_buf sv) with Some (_ :: _) => true | _ => false end in
    if buffered then flat_map (fun q => buffered_msgs sv v (Some q)) seqs
    else if memb v (sv_gaps sv) then [] else [MEmpty v v]
  end.

Inductive sneed := NFull (s e : Z) | NPartial (v : Z) (seqs : list (Z * Z)).

(* process_sync's filter *)
Definition skip_need (sv : srv) (n : sneed) : bool :=
  let beyond v := match sv_max sv with Some m => m <? v | None => false end in
  match n with
  | NFull s e => forallb (fun v => memb v (sv_needed sv) || beyond v) (zrange s e)
  | NPartial v _ => memb v (sv_needed sv) || beyond v
  end.

Definition serve (sv : srv) (n : sneed) : list msg :=
  if skip_need sv n then []
  else match n with
       | NFull s e => handle_need_full sv s e
       | NPartial v seqs => handle_need_partial sv v seqs
       end.

(* ---------- decidable statement of C05 on a list of answers (oracle) --------- *)
Definition holds_live (sv : srv) (v : Z) : bool := match vget v (sv_live sv) with Some _ => true | None => false end.
Definition holds_buf (sv : srv) (v : Z) : bool := match vget v (sv_buf sv) with Some (_ :: _) => true | _ => false end.
Definition has_seqrows (sv : srv) (v : Z) : bool := match vget v (sv_seq sv) with Some (_ :: _) => true | _ => false end.

Definition row_eqb (a b : row) : bool := (fst a =? fst b) && (snd a =? snd b).

Definition msg_ok (sv : srv) (m : msg) : bool :=
  match m with
  | MEmpty lo hi =>
    (* never empty for a version that is needed, partially held, or has live changes *)
    forallb (fun v => negb (memb v (sv_gaps sv)) && negb (memb v (sv_needed sv)) &&
                      negb (holds_buf sv v) && negb (has_seqrows sv v) && negb (holds_live sv v))
            (zrange lo hi)
  | MFull v rows s e last =>
    (* every change lies in its changeset's range and is a change the server holds *)
    forallb (in_range s e) rows &&
    negb (memb v (sv_gaps sv)) &&
    (* a version held only in the partial buffer is answered with sub-ranges of what is held *)
    (match vget v (sv_live sv) with
     | Some _ => true
     | None => existsb (fun sr : srow => let '(rs, re, _) := sr in (rs <=? s) && (e <=? re))
                       (match vget v (sv_seq sv) with Some r => r | None => [] end)
     end) &&
    let src := match vget v (sv_live sv) with
               | Some l => l
               | None => match vget v (sv_buf sv) with Some b => b | None => [] end end in
    forallb (fun r => existsb (row_eqb r) src) rows
  end.

(* a fully held live version requested in full: the answers about it tile
   0..=max live seq and carry exactly its live rows *)
Definition full_version_ok (sv : srv) (out : list msg) (v : Z) : bool :=
  match vget v (sv_live sv) with
  | None => true
  | Some rows =>
    let mine := flat_map (fun m => match m with
                                   | MFull v' r s e _ => if v' =? v then [(map (fun x => mkChg (fst x) 0 (snd x)) r, (s, e))] else []
                                   | _ => [] end) out in
    check_chunks (map (fun x => mkChg (fst x) 0 (snd x)) rows) 0 (maxseq rows) mine
  end.

Definition check_serve (sv : srv) (n : sneed) (out : list msg) : bool :=
  forallb (msg_ok sv) out &&
  match n with
  | NFull s e => if skip_need sv n then match out with [] => true | _ => false end
                 else forallb (full_version_ok sv out) (zrange s e)
  | NPartial _ _ => true
  end.
