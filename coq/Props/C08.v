(* C08 — Changeset chunks tile the sequence range exactly, whatever the size limit.
   This file contains only statements closed by [exact], their pins and
   Print Assumptions.  Proofs: Proofs/ChunkProofs.v.  Model: Model/Chunk.v. *)
From Coq Require Import List ZArith Bool Lia.
From Corro Require Import Model.Chunk Proofs.ChunkProofs Gen.Consts.
Import ListNotations.
Open Scope Z_scope.

(* For every ordered change list inside [start,last] (wf_input), every stream
   of per-call size limits (any integers, changed between calls), the iterator
   finishes within |cs|+1 calls and its output tiles [start,last], carries
   every change exactly once in order, each inside its chunk's range. *)
Theorem C08_chunks_tile : forall cs start last lims out stf,
  wf_input cs start last = true ->
  (length cs < length lims)%nat ->
  run lims (start_cursor cs start last) = (out, stf) ->
  done stf = true /\ chunks_spec cs start last out.
Proof. exact run_tiles. Qed.
Check C08_chunks_tile : forall cs start last lims out stf,
  wf_input cs start last = true ->
  (length cs < length lims)%nat ->
  run lims (start_cursor cs start last) = (out, stf) ->
  done stf = true /\
  (tiles start last (map snd out) /\ concat (map fst out) = cs /\ Forall chunk_in_range out).
Print Assumptions C08_chunks_tile.

(* a message is only oversized through its last change: everything before it is below the
   limit in force for that message (for every limit schedule) *)
Theorem C08_oversized_only_by_last_change : forall lims st out stf,
  run lims st = (out, stf) -> sizes_ok_b lims out = true.
Proof. exact run_sizes. Qed.
Print Assumptions C08_oversized_only_by_last_change.

Theorem C08_finished_iterator_yields_none : forall cs start last lims out stf l,
  wf_input cs start last = true ->
  (length cs < length lims)%nat ->
  run lims (start_cursor cs start last) = (out, stf) ->
  next l stf = None.
Proof. exact run_then_none. Qed.
Print Assumptions C08_finished_iterator_yields_none.

Theorem C08_empty_input_single_chunk : forall start last l lims,
  start <= last ->
  fst (run (l :: lims) (start_cursor [] start last)) = [([], (start, last))].
Proof. exact empty_single_chunk. Qed.
Print Assumptions C08_empty_input_single_chunk.

(* For EVERY input list -- no ordering hypothesis -- and every limit schedule, what the
   iterator hands out is exactly the prefix of the rows up to and including the first row
   whose seq is last_seq; so everything is served exactly when no row follows the first row
   carrying last_seq.  Strictly increasing seqs (the property's quantifier) guarantee that;
   two rows under one seq = last_seq do not: the boundary of the known finding
   resurrect-duplicate-seq (C01/C05). *)
Theorem C08_served_is_prefix_up_to_last_seq : forall cs start last lims out stf,
  (length cs < length lims)%nat ->
  run lims (start_cursor cs start last) = (out, stf) ->
  concat (map fst out) = upto last cs.
Proof. exact run_serves_upto. Qed.
Print Assumptions C08_served_is_prefix_up_to_last_seq.

Theorem C08_everything_served_iff_nothing_follows_last_seq : forall last cs,
  upto last cs = cs <->
  (forall pre c post, cs = pre ++ c :: post -> c_seq c = last -> post = []).
Proof. exact upto_all. Qed.
Print Assumptions C08_everything_served_iff_nothing_follows_last_seq.

Example C08_duplicate_last_seq_drops_the_second_row :
  fst (run [10; 10; 10] (start_cursor [mkChg 0 5 1; mkChg 0 5 2] 0 0)) = [([mkChg 0 5 1], (0, 0))].
Proof. vm_compute. reflexivity. Qed.

(* the boolean oracle run on implementation output is the same statement *)
Theorem C08_oracle_exact : forall cs start last out,
  check_chunks cs start last out = true <-> chunks_spec cs start last out.
Proof. exact check_chunks_iff. Qed.
Print Assumptions C08_oracle_exact.

(* version-range requests: union of blocks is exactly [s,e] for every k >= 1 *)
Theorem C08_chunk_range_exact : forall s e k,
  1 <= k -> s <= e -> range_spec s e (chunk_range s e k).
Proof. exact chunk_range_spec. Qed.
Check C08_chunk_range_exact : forall s e k, 1 <= k -> s <= e ->
  (forall b, In b (chunk_range s e k) -> s <= fst b /\ fst b <= snd b /\ snd b <= e) /\
  (forall x, s <= x <= e -> exists b, In b (chunk_range s e k) /\ fst b <= x <= snd b).
Print Assumptions C08_chunk_range_exact.

(* ... instantiated at the chunk size the source uses today (Gen/Consts.v is
   regenerated from peer/mod.rs on every run) *)
Theorem C08_chunk_range_callsite : forall s e,
  s <= e -> range_spec s e (chunk_range s e sync_request_chunk).
Proof. intros s e H. apply chunk_range_spec; [vm_compute; discriminate|exact H]. Qed.
Print Assumptions C08_chunk_range_callsite.

(* the request blocks partition the range: consecutive, sharing no version, at most k versions each *)
Theorem C08_chunk_range_partition : forall s e k, 1 <= k -> s <= e -> rtiles_b s e k (chunk_range s e k) = true.
Proof. exact chunk_range_tiles. Qed.
Print Assumptions C08_chunk_range_partition.

Theorem C08_range_oracle_exact : forall s e bs,
  check_chunk_range s e bs = true <-> range_spec s e bs.
Proof. exact check_chunk_range_iff. Qed.
Print Assumptions C08_range_oracle_exact.

(* non-vacuity: hypotheses are met by a non-trivial input, with holes, a
   limit change between chunks and a zero limit *)
Example C08_nonvacuous :
  let cs := [mkChg 2 10 0; mkChg 4 10 1; mkChg 7 10 2; mkChg 8 10 3] in
  wf_input cs 0 10 = true /\
  fst (run [20; 0; 5; 5; 5] (start_cursor cs 0 10)) =
    [([mkChg 2 10 0; mkChg 4 10 1], (0, 4)); ([mkChg 7 10 2], (5, 7)); ([mkChg 8 10 3], (8, 10))].
Proof. vm_compute. split; reflexivity. Qed.

Example C08_range_nonvacuous : chunk_range 1 25 10 = [(1, 10); (11, 20); (21, 25)].
Proof. vm_compute. reflexivity. Qed.
