From Coq Require Import List ZArith Bool Lia.
From Corro Require Import Lib.Ivl Model.Needs.
Import ListNotations.
Open Scope Z_scope.

Lemma clip_mem haves rs x : mem x (clip haves rs) <-> mem x rs /\ mem x haves.
Proof.
  unfold clip. split.
  - intros H. apply mem_In in H. destruct H as (t & Ht & Hx).
    apply in_flat_map in Ht. destruct Ht as (r & Hr & Ht).
    apply in_map_iff in Ht. destruct Ht as (o & <- & Ho).
    apply overlapping_In in Ho. cbn [fst snd] in Hx. destruct Ho as (Ho & _ & _).
    split; [apply (In_mem r); [exact Hr|lia]|apply (In_mem o); [exact Ho|lia]].
  - intros [Hr Hh]. apply mem_In in Hr. destruct Hr as (r & Hr & Hxr).
    apply mem_In in Hh. destruct Hh as (o & Ho & Hxo).
    apply (In_mem (Z.max (fst r) (fst o), Z.min (snd r) (snd o))); [|cbn; lia].
    apply in_flat_map. exists r. split; [exact Hr|]. apply in_map_iff. exists o. split; [reflexivity|].
    apply overlapping_In. split; [exact Ho|lia].
Qed.

Lemma clip_bounds haves rs t : In t (clip haves rs) ->
  exists r o, In r rs /\ In o haves /\ fst o <= fst t /\ snd t <= snd o /\ fst r <= fst t /\ snd t <= snd r.
Proof.
  unfold clip. intros Ht. apply in_flat_map in Ht. destruct Ht as (r & Hr & Ht).
  apply in_map_iff in Ht. destruct Ht as (o & <- & Ho). apply overlapping_In in Ho.
  exists r, o. cbn. repeat split; try tauto; lia.
Qed.

(* keys of an association list are unique: zget finds every entry *)
Definition uniq_keys {V} (m : list (Z * V)) : Prop := NoDup (map fst m).

Lemma zget_In {V} : forall (m : list (Z * V)) k v, uniq_keys m -> In (k, v) m -> zget k m = Some v.
Proof.
  induction m as [|[k' v'] m IH]; intros k v Hu Hin; [destruct Hin|].
  unfold uniq_keys in Hu. cbn in Hu. inversion Hu as [|? ? Hn Hu']; subst.
  cbn. destruct Hin as [E|Hin].
  - injection E as -> ->. rewrite Z.eqb_refl. reflexivity.
  - destruct (k =? k') eqn:E; [|apply IH; assumption].
    apply Z.eqb_eq in E. subst. exfalso. apply Hn. apply in_map_iff. exists (k', v). split; [reflexivity|exact Hin].
Qed.

Lemma zget_Some_In {V} : forall (m : list (Z * V)) k v, zget k m = Some v -> In (k, v) m.
Proof.
  induction m as [|[k' v'] m IH]; intros k v H; [discriminate|]. cbn in H.
  destruct (k =? k') eqn:E; [apply Z.eqb_eq in E; subst; injection H as ->; left; reflexivity|right; apply IH, H].
Qed.

(* well-formedness of a peer's advertised state *)
Record wf_state (s : sstate) : Prop := {
  wf_heads : uniq_keys (ss_heads s);
  wf_heads_pos : forall a h, In (a, h) (ss_heads s) -> 0 <= h;
  wf_need_ok : forall a ns, zget a (ss_need s) = Some ns -> ranges_ok ns;
  wf_partial_keys : forall a ps, zget a (ss_partial s) = Some ps -> uniq_keys ps }.

Lemma other_haves_mem other a head x : wf_state other -> 1 <= head ->
  (mem x (other_haves other a head) <->
   1 <= x <= head /\
   ~ (exists ns, zget a (ss_need other) = Some ns /\ mem x ns) /\
   ~ (exists ps, zget a (ss_partial other) = Some ps /\ exists q, In (x, q) ps)).
Proof.
  intros Hwf Hh. unfold other_haves.
  assert (Hc0 : canonical [(1, head)]) by (exists 1; cbn; lia).
  assert (Hm0 : forall y, mem y [(1, head)] <-> 1 <= y <= head) by (intros y; cbn; tauto).
  set (h1 := match zget a (ss_need other) with Some ns => rem_all ns [(1, head)] | None => [(1, head)] end).
  assert (Hh1 : canonical h1 /\ forall y, mem y h1 <-> 1 <= y <= head /\
                 ~ (exists ns, zget a (ss_need other) = Some ns /\ mem y ns)).
  { unfold h1. destruct (zget a (ss_need other)) as [ns|] eqn:E.
    - pose proof (wf_need_ok _ Hwf a ns E) as Hok. split; [apply rem_all_canonical; assumption|].
      intros y. rewrite rem_all_mem by assumption. rewrite Hm0. split.
      + intros [H1 H2]. split; [exact H1|]. intros (ns' & E' & Hm). injection E' as <-. contradiction.
      + intros [H1 H2]. split; [exact H1|]. intros Hm. apply H2. exists ns. tauto.
    - split; [exact Hc0|]. intros y. rewrite Hm0. split; [intros H; split; [exact H|intros (ns & E' & _); discriminate]|tauto]. }
  destruct Hh1 as [Hc1 Hm1].
  destruct (zget a (ss_partial other)) as [ps|] eqn:E.
  - assert (Hok : ranges_ok (map (fun p : Z * list (Z * Z) => (fst p, fst p)) ps)).
    { unfold ranges_ok. apply Forall_forall. intros r Hr. apply in_map_iff in Hr. destruct Hr as (p & <- & _). cbn. lia. }
    rewrite rem_all_mem by assumption. rewrite Hm1. split.
    + intros [[H1 H2] H3]. repeat split; try tauto. intros (ps' & E' & q & Hq). injection E' as <-.
      apply H3. apply (In_mem (x, x)); [|cbn; lia]. apply in_map_iff. exists (x, q). tauto.
    + intros (H1 & H2 & H3). repeat split; try tauto. intros Hm. apply H3. exists ps. split; [reflexivity|].
      apply mem_In in Hm. destruct Hm as (r & Hr & Hx). apply in_map_iff in Hr. destruct Hr as ([k q] & <- & Hp).
      cbn in Hx. assert (k = x) by lia. subst. exists q. exact Hp.
  - rewrite Hm1. split; [intros [H1 H2]; repeat split; try tauto; intros (ps & E' & _); discriminate|tauto].
Qed.

Lemma other_haves_canonical other a head : wf_state other -> 1 <= head -> canonical (other_haves other a head).
Proof.
  intros Hwf Hh. unfold other_haves.
  assert (Hc0 : canonical [(1, head)]) by (exists 1; cbn; lia).
  assert (Hc1 : canonical (match zget a (ss_need other) with Some ns => rem_all ns [(1, head)] | None => [(1, head)] end)).
  { destruct (zget a (ss_need other)) as [ns|] eqn:E; [|exact Hc0].
    apply rem_all_canonical; [eapply wf_need_ok; eassumption|exact Hc0]. }
  destruct (zget a (ss_partial other)) as [ps|]; [|exact Hc1].
  apply rem_all_canonical; [|exact Hc1].
  unfold ranges_ok. apply Forall_forall. intros r Hr. apply in_map_iff in Hr. destruct Hr as (p & <- & _). cbn. lia.
Qed.

(* entries of the output *)
Lemma out_In us other a l :
  In (a, l) (compute_available_needs us other) ->
  a <> ss_actor us /\ exists head, In (a, head) (ss_heads other) /\ head <> 0 /\
                                   l = needs_for us other a head /\ l <> [].
Proof.
  unfold compute_available_needs. intros H. apply in_flat_map in H.
  destruct H as ([a' head] & Hin & H).
  destruct (a' =? ss_actor us) eqn:E1; [destruct H|].
  destruct (head =? 0) eqn:E2; [destruct H|].
  destruct (needs_for us other a' head) as [|n l'] eqn:E3; [destruct H|].
  destruct H as [E|[]]. injection E as -> <-.
  apply Z.eqb_neq in E1, E2. split; [exact E1|]. exists head. repeat split; try assumption; try discriminate.
  symmetry; exact E3.
Qed.

Lemma In_out us other a head :
  In (a, head) (ss_heads other) -> a <> ss_actor us -> head <> 0 ->
  needs_for us other a head <> [] ->
  In (a, needs_for us other a head) (compute_available_needs us other).
Proof.
  intros Hin Ha Hh Hne. unfold compute_available_needs. apply in_flat_map.
  exists (a, head). split; [exact Hin|].
  apply Z.eqb_neq in Ha, Hh. rewrite Ha, Hh.
  destruct (needs_for us other a head); [contradiction|left; reflexivity].
Qed.

(* ---------- soundness: never own actor, always within the advertised head ---- *)
Theorem needs_within_head us other a v :
  wf_state other -> (forall a h, In (a, h) (ss_heads us) -> 0 <= h) ->
  req_full (compute_available_needs us other) a v ->
  a <> ss_actor us /\ exists head, In (a, head) (ss_heads other) /\ 1 <= v <= head.
Proof.
  intros Hwf Hus (l & s & e & Hin & Hf & Hv).
  apply out_In in Hin. destruct Hin as (Ha & head & Hhead & Hh0 & -> & _).
  split; [exact Ha|]. exists head. split; [exact Hhead|].
  pose proof (wf_heads_pos _ Hwf _ _ Hhead) as Hpos. assert (1 <= head) as Hh1 by lia.
  unfold needs_for in Hf. apply in_app_iff in Hf. destruct Hf as [Hf|Hf]; [|apply in_app_iff in Hf; destruct Hf as [Hf|Hf]].
  - destruct (zget a (ss_need us)) as [our|]; [|destruct Hf].
    apply in_map_iff in Hf. destruct Hf as (t & E & Ht). injection E as <- <-.
    apply clip_bounds in Ht. destruct Ht as (r & o & _ & Ho & H1 & H2 & _).
    assert (mem (fst o) (other_haves other a head) /\ mem (snd o) (other_haves other a head)) as [M1 M2].
    { pose proof (canonical_ranges_ok _ (other_haves_canonical other a head Hwf Hh1)) as Hok.
      unfold ranges_ok in Hok. rewrite Forall_forall in Hok. specialize (Hok o Ho).
      split; apply (In_mem o); try assumption; lia. }
    apply (other_haves_mem other a head _ Hwf Hh1) in M1, M2. lia.
  - (* partial entries are not Full *)
    exfalso. destruct (zget a (ss_partial us)) as [ours|]; [|destruct Hf].
    apply in_flat_map in Hf. destruct Hf as ([v' seqs] & _ & Hf).
    destruct (memb v' (other_haves other a head)); [destruct Hf as [E|[]]; discriminate|].
    destruct (match zget a (ss_partial other) with Some m => zget v' m | None => None end) as [os|]; [|destruct Hf].
    destruct (omaxz (max_end os) (max_end seqs)); [|destruct Hf].
    destruct (clip _ seqs); [destruct Hf|destruct Hf as [E|[]]; discriminate].
  - destruct (zget a (ss_heads us)) as [oh|] eqn:E.
    + destruct (oh <? head) eqn:E2; [|destruct Hf]. destruct Hf as [Ef|[]]. injection Ef as <- <-.
      apply zget_Some_In in E. apply Hus in E. lia.
    + destruct Hf as [Ef|[]]. injection Ef as <- <-. lia.
Qed.

(* ---------- completeness for fully held versions ------------------------------ *)
Definition peer_holds (other : sstate) (a v : Z) : Prop :=
  exists head, In (a, head) (ss_heads other) /\ 1 <= v <= head /\
  ~ (exists ns, zget a (ss_need other) = Some ns /\ mem v ns) /\
  ~ (exists ps, zget a (ss_partial other) = Some ps /\ exists q, In (v, q) ps).

Definition we_lack (us : sstate) (a v : Z) : Prop :=
  zget a (ss_heads us) = None \/
  (exists h, zget a (ss_heads us) = Some h /\ h < v) \/
  (exists ns, zget a (ss_need us) = Some ns /\ mem v ns).

Theorem needs_complete_full us other a v :
  wf_state other -> a <> ss_actor us ->
  peer_holds other a v -> we_lack us a v ->
  req_full (compute_available_needs us other) a v.
Proof.
  intros Hwf Ha (head & Hhead & Hv & Hnn & Hnp) Hlack.
  assert (1 <= head) as Hh1 by lia. assert (head <> 0) as Hh0 by lia.
  assert (Hmem : mem v (other_haves other a head)) by (apply other_haves_mem; tauto).
  assert (Hreq : exists s e, In (Full s e) (needs_for us other a head) /\ s <= v <= e).
  { unfold needs_for. destruct Hlack as [Hn|[(h & Hh & Hlt)|(ns & Hns & Hm)]].
    - exists 1, head. split; [|lia]. rewrite Hn. apply in_app_iff; right; apply in_app_iff; right. left; reflexivity.
    - exists (h + 1), head. split; [|lia]. rewrite Hh.
      apply in_app_iff; right; apply in_app_iff; right.
      destruct (h <? head) eqn:E; [left; reflexivity|apply Z.ltb_ge in E; lia].
    - rewrite Hns.
      assert (mem v (clip (other_haves other a head) ns)) as Hc by (apply clip_mem; tauto).
      apply mem_In in Hc. destruct Hc as (t & Ht & Hx). exists (fst t), (snd t). split; [|exact Hx].
      apply in_app_iff; left. apply in_map_iff. exists t. split; [reflexivity|exact Ht]. }
  destruct Hreq as (s & e & Hin & Hse).
  exists (needs_for us other a head), s, e. split; [|split; assumption].
  apply In_out; try assumption. intros E. rewrite E in Hin. destruct Hin.
Qed.

(* ---------- partial on our side, fully held by the peer: exactly our missing seqs *)
Theorem needs_partial_held us other a v seqs ours q :
  wf_state other -> a <> ss_actor us ->
  zget a (ss_partial us) = Some ours -> uniq_keys ours -> In (v, seqs) ours ->
  peer_holds other a v ->
  (req_seq (compute_available_needs us other) a v q <-> mem q seqs).
Proof.
  intros Hwf Ha Hours Huniq Hin (head & Hhead & Hv & Hnn & Hnp).
  assert (1 <= head) as Hh1 by lia. assert (head <> 0) as Hh0 by lia.
  assert (Hmem : memb v (other_haves other a head) = true)
    by (apply memb_iff, other_haves_mem; tauto).
  assert (Hp : In (Partial v seqs) (needs_for us other a head)).
  { unfold needs_for. rewrite Hours. apply in_app_iff; right; apply in_app_iff; left.
    apply in_flat_map. exists (v, seqs). split; [exact Hin|]. rewrite Hmem. left; reflexivity. }
  split.
  - intros (l & seqs' & Hl & Hpl & Hq).
    apply out_In in Hl. destruct Hl as (_ & head' & Hhead' & _ & -> & _).
    assert (head' = head).
    { pose proof (zget_In _ _ _ (wf_heads _ Hwf) Hhead). pose proof (zget_In _ _ _ (wf_heads _ Hwf) Hhead'). congruence. }
    subst head'. unfold needs_for in Hpl. rewrite Hours in Hpl.
    apply in_app_iff in Hpl. destruct Hpl as [Hpl|Hpl].
    { destruct (zget a (ss_need us)); [|destruct Hpl]. apply in_map_iff in Hpl. destruct Hpl as (? & E & _). discriminate. }
    apply in_app_iff in Hpl. destruct Hpl as [Hpl|Hpl].
    + apply in_flat_map in Hpl. destruct Hpl as ([v' s'] & Hin' & Hpl).
      destruct (memb v' (other_haves other a head)) eqn:Em.
      * destruct Hpl as [E|[]]. injection E as -> ->.
        pose proof (zget_In _ _ _ Huniq Hin). pose proof (zget_In _ _ _ Huniq Hin'). congruence.
      * destruct (match zget a (ss_partial other) with Some m => zget v' m | None => None end) as [os|]; [|destruct Hpl].
        destruct (omaxz (max_end os) (max_end s')); [|destruct Hpl].
        destruct (clip _ s') eqn:Ec; [destruct Hpl|]. destruct Hpl as [E|[]]. injection E as -> <-.
        congruence.
    + destruct (zget a (ss_heads us)) as [oh|]; [destruct (oh <? head)|]; cbn in Hpl; intuition discriminate.
  - intros Hq. exists (needs_for us other a head), seqs. split; [|split; assumption].
    apply In_out; try assumption. intros E. rewrite E in Hp. destruct Hp.
Qed.
