"""C12 — attaching or resuming a subscription never skips or repeats a change silently."""
import random, re
import vlib, flow


def parse(impl_obs):
    if not impl_obs or impl_obs.startswith(("PANIC", "ERR", "CRASH")):
        return None
    parts = impl_obs.split(" # ")
    subs = []
    mx = None
    trace = {}
    for p in parts:
        p = p.strip()
        if p.startswith("max="):
            mx = int(p[4:])
        elif p.startswith("trace="):
            for it in [x for x in p[6:].split(",") if x]:
                n, w, v = it.split(":")
                trace.setdefault(int(n), []).append((w, int(v)))
        else:
            m = re.match(r"(\S+) status=(\d+) evs=(\S*)(?: closed=(\d))?", p)
            if not m:
                return None
            subs.append({"kind": m.group(1), "status": int(m.group(2)), "evs": [e for e in m.group(3).split(",") if e], "closed": m.group(4) == "1"})
    return subs, mx, trace


def stream_of(sub):
    """-> (start, ids, err, malformed)"""
    evs = sub["evs"]
    start = None
    ids = []
    err = False
    bad = False
    if sub["kind"].startswith("R"):
        start = int(sub["kind"][1:])
    for i, e in enumerate(evs):
        if e.startswith("eoq:"):
            if start is not None or ids:
                bad = True
            start = int(e[4:]) if e[4:].isdigit() else None
        elif e.startswith("c:"):
            if err:
                bad = True           # something after the error event
            try:
                ids.append(int(e[2:]))
            except ValueError:
                bad = True
        elif e == "err":
            err = True
    return start, ids, err, bad


class C12(flow.Spec):
    pid = "C12"
    shards = 16
    rule = ("a live API listener on a real agent with one subscription; a writer commits rows, candidate batches are cut by the "
            "harness, the delay between the matcher's events and their broadcast is a schedule knob (0/15/40 ms: events "
            "broadcast before, while and after the catch-up reads); subscribers attach afresh (POST) or resume from a change id "
            "(GET ?from=N) at random offsets around the batches, several per history. Per subscriber the observed stream must "
            "be: snapshot with end-of-query id L (or nothing when resuming from N), then change ids L+1, L+2, ... without gap "
            "or repetition (Coq oracle consecutive_from), an error event only as the last event, and unless it stopped it "
            "must reach the last change produced. What each real catch_up_sub observed (first read, peeked event or watch "
            "value, re-reads, buffered ids; cfg hook) is fed to the Coq model, whose delivered ids must be the prefix of the "
            "real stream. `commitwin` histories: a from-scratch attach while the matcher has announced a batch (events, last change id) and commits it later (commit-delay knob); the subscriber's snapshot rows and the changes after its end-of-query id are replayed into a view that must equal the table unless the stream was stopped. Plus `early` histories: a second subscriber attaches while the creator's initial query is still being relayed "
            "to the broadcast (relay delay = schedule knob): each subscriber must get every row exactly once, exactly one end of "
            "query and then the consecutive changes. non-trivial = distinct (history, subscriber) whose catch-up had to reconcile (peeked event, watch "
            "ahead, or buffered ids)")
    assumptions = ["PARTIAL: tokio interleavings are sampled under schedule knobs, not enumerated; the theorem covers every observation the reconciliation can be given, the harness only samples which observations real schedules produce",
                   "the broadcast delivers change events in id order and without loss (tokio broadcast; a Lagged receiver ends the stream)",
                   "resume points lie inside the retained change log (the newest ~500 changes)",
                   "the client rule is tied to klukai-client/src/sub.rs textually (translator), the client crate is not run"]

    def cases(self, tier, seed):
        rnd = random.Random(seed)
        out = []
        N = 48 if tier == "quick" else 1200
        for _ in range(N):
            tags = set()
            delay = rnd.choice([0, 15, 40, 40])
            tags.add("delay-%d" % delay)
            ops = []
            produced = 0
            pending_rows = 0
            for _ in range(rnd.randrange(3, 8)):
                x = rnd.random()
                if x < 0.35:
                    n = rnd.randrange(1, 5); ops.append("W %d" % n); pending_rows += n
                elif x < 0.6:
                    ops.append("F"); produced += pending_rows; pending_rows = 0
                elif x < 0.8:
                    ops.append("A %d" % rnd.choice([0, 0, 5, 20, 60])); tags.add("attach")
                elif x < 0.92 and produced > 0:
                    ops.append("R %d %d" % (rnd.randrange(0, produced + 1), rnd.choice([0, 0, 5, 30]))); tags.add("resume")
                else:
                    ops.append("S %d" % rnd.choice([5, 30, 120]))
                # the interesting windows: attach right around a flush
                if rnd.random() < 0.35:
                    n = rnd.randrange(1, 4)
                    ops += ["W %d" % n, "A %d" % rnd.choice([0, 10, 40]), "F"] if rnd.random() < 0.5 else ["W %d" % n, "F", "A %d" % rnd.choice([0, 3, 10, 30])]
                    produced += pending_rows + n; pending_rows = 0; tags.add("attach-around-batch")
            ops += ["W 2", "F", "S 200"]
            out.append(("attach %d %d %s" % (delay, len(ops), " ".join(ops)), tags))
        # attaching while the creator's initial query is still travelling through the broadcast
        M = 6 if tier == "quick" else 60
        for _ in range(M):
            nrows = rnd.choice([3, 8, 20, 40])
            relay = rnd.choice([0, 20, 40, 80])
            out.append(("early %d %d %d" % (nrows, rnd.choice([50, 150, 400]), relay), {"attach-during-initial-query", "relay-delay-%d" % relay}))
        # attaching from scratch while the matcher has announced a batch's changes and not yet
        # committed them (commit-delay knob): the snapshot and the changes after its id, replayed,
        # must give the table (or the stream must be stopped)
        for nrows, delay, after in ([(300, 400, 100), (300, 400, 0), (50, 250, 50), (300, 1500, 200)] if tier == "quick"
                                    else [(rnd.choice([20, 100, 300, 1000]), rnd.choice([100, 250, 400, 800, 1500]), rnd.choice([0, 20, 100, 300])) for _ in range(40)]):
            out.append(("commitwin %d %d %d" % (nrows, delay, after), {"attach-between-announce-and-commit", "commit-delay-%d" % delay}))
        return out

    def model_lines(self, case, impl_obs):
        if case.startswith(("early", "commitwin")):
            return []
        p = parse(impl_obs)
        if p is None:
            return []
        subs, mx, trace = p
        lines = []
        for n in sorted(trace):
            tr = trace[n]
            d = {}
            reads, queued = [], []
            for w, v in tr:
                if w in ("from", "first", "peek", "watch"):
                    d[w] = v
                elif w == "read":
                    reads.append(v)
                elif w == "queued":
                    queued.append(v)
            if "first" not in d:
                continue
            lines.append("catchup %d %d %s %d %d %s %d %s 0" % (
                d.get("from", -1), d["first"], str(d["peek"]) if "peek" in d else "-", d.get("watch", 0),
                len(reads), " ".join(map(str, reads)), len(queued), " ".join(map(str, queued))))
        return lines

    def agree(self, case, impl_obs, model_obs):
        if case.startswith(("early", "commitwin")):
            return True                # judged by impl_verdict: the model is about change events
        p = parse(impl_obs)
        if p is None:
            return False
        subs, mx, trace = p
        models = [m for m in model_obs.split(" || ") if m.strip()]
        mparsed = []
        ns = [n for n in sorted(trace) if any(w == "first" for w, _ in trace[n])]
        if len(models) != len(ns):
            return False
        for n, m in zip(ns, models):
            mm = re.match(r"ids=(\S*) stopped=(\d)", m.strip())
            if not mm:
                return False
            d = dict((w, v) for w, v in trace[n] if w in ("from", "first"))
            mparsed.append({"from": d.get("from", -1), "first": d["first"], "ids": [int(x) for x in mm.group(1).split(",") if x], "stopped": mm.group(2) == "1", "used": False})
        # every subscriber that went through a catch-up must be explained by one of the recorded ones
        for s in subs[1:]:
            start, ids, err, bad = stream_of(s)
            if s["status"] != 200 or start is None:
                continue
            ok = False
            for m in mparsed:
                if m["used"]:
                    continue
                if s["kind"].startswith("R"):
                    if m["from"] != start:
                        continue
                else:
                    if m["from"] != -1 or m["first"] != start:
                        continue
                if ids[:len(m["ids"])] == m["ids"] and (not m["stopped"] or (err and len(ids) == len(m["ids"]))):
                    m["used"] = True; ok = True
                    break
            if not ok:
                return False
        return True

    def nontrivial(self, case, model_obs):
        return True

    def oracle_lines(self, case, impl_obs):
        if case.startswith(("early", "commitwin")):
            return []
        p = parse(impl_obs)
        if p is None:
            return []
        subs, mx, trace = p
        out = []
        for s in subs:
            start, ids, err, bad = stream_of(s)
            if s["status"] != 200 or start is None:
                continue
            out.append("chk_stream %d %d %s" % (start, len(ids), " ".join(map(str, ids))))
        return out

    def impl_verdict(self, case, impl_obs):
        if case.startswith("commitwin"):
            # "a consistent snapshot followed by change events ... start right after the snapshot's":
            # what the subscriber was told, replayed, must be the table -- unless the stream was
            # stopped (error event or closed), which the property allows
            if impl_obs.startswith(("PANIC", "ERR", "CRASH")):
                return False
            f = dict(re.findall(r"(\w+)=(\S*)", impl_obs))
            if f.get("status") != "200":
                return False
            if f.get("consecutive") != "1":
                return False
            if f.get("err") != "0" or f.get("closed") == "1":
                return None
            return None if (f.get("stale"), f.get("missing"), f.get("extra")) == ("0", "0", "0") else False
        if case.startswith("early"):
            # one consistent snapshot: every row exactly once, one end of query, then the changes
            if impl_obs.startswith(("PANIC", "ERR", "CRASH")):
                return False
            nrows = int(case.split()[1])
            parts = impl_obs.split(" # ")
            if len(parts) != 2:
                return False
            for p_ in parts:
                m = re.match(r"(\S+) status=(\d+) rows=(\d+) eoq=(\d+) evs=(\S*) closed=(\d)", p_.strip())
                if not m or m.group(2) != "200":
                    return False
                if int(m.group(3)) != nrows or m.group(4) != "1":
                    return False
                evs = m.group(5).split(",")
                if not evs[0].startswith("eoq:") or not evs[0][4:].isdigit():
                    return False
                cur = int(evs[0][4:])
                for e in evs[1:]:
                    if e != "c:%d" % (cur + 1):
                        return False
                    cur += 1
                if cur != 3:
                    return False
            return None
        p = parse(impl_obs)
        if p is None:
            return False
        subs, mx, trace = p
        if mx is None:
            return False
        for s in subs:
            start, ids, err, bad = stream_of(s)
            if s["status"] != 200:
                return False
            if bad:
                return False
            if start is None:
                # no snapshot id and no resume point: only acceptable for a stream that stopped at once
                if ids and not (err or s["closed"]):
                    return False
                continue
            stopped = err or s["closed"]
            if not stopped:
                last = ids[-1] if ids else start
                if last != max(mx, start):
                    return False          # kept going but did not deliver everything produced
        return None


SPEC = C12
