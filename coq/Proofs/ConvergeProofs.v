From Coq Require Import List ZArith Bool Lia Permutation.
From Corro Require Import Model.Crdt Proofs.CrdtProofs.
From Corro Require Import Model.CrdtSpec.
Import ListNotations.
Open Scope Z_scope.

(* ---------- maxcl / best ---------- *)
Lemma maxcl_cons r P : maxcl (r :: P) = Z.max (r_cl r) (maxcl P).
Proof. reflexivity. Qed.
Lemma maxcl_nil : maxcl [] = 0.
Proof. reflexivity. Qed.
Global Opaque maxcl.

Lemma maxcl_nonneg P : 0 <= maxcl P.
Proof. induction P as [|r P IH]; [rewrite maxcl_nil|rewrite maxcl_cons]; lia. Qed.

Lemma maxcl_ub P r : In r P -> r_cl r <= maxcl P.
Proof.
  induction P as [|a P IH]; [intros []|]. rewrite maxcl_cons.
  intros [->|H]; [lia|]. specialize (IH H). lia.
Qed.

Lemma maxcl_attained P : P <> [] -> (forall r, In r P -> 0 <= r_cl r) -> exists r, In r P /\ r_cl r = maxcl P.
Proof.
  induction P as [|a P IH]; [congruence|]. intros _ Hpos. rewrite maxcl_cons.
  destruct P as [|b P'].
  - exists a. split; [left; reflexivity|]. rewrite maxcl_nil. specialize (Hpos a (or_introl eq_refl)). lia.
  - destruct IH as [r [Hin Hr]]; [discriminate|intros r Hr; apply Hpos; right; exact Hr|].
    destruct (Z.le_gt_cases (r_cl a) (maxcl (b :: P'))) as [Hle|Hgt].
    + exists r. split; [right; exact Hin|]. lia.
    + exists a. split; [left; reflexivity|]. lia.
Qed.

Lemma filter_top_above M P : maxcl P < M -> filter (is_top M) P = [].
Proof.
  intros Hlt. induction P as [|a P IH]; [reflexivity|]. rewrite maxcl_cons in Hlt. cbn [filter].
  unfold is_top at 1. destruct (r_cl a =? M) eqn:E; [apply Z.eqb_eq in E; lia|].
  rewrite andb_false_r. apply IH. lia.
Qed.

Lemma lexlt_irrefl a : lexlt a a = false.
Proof. unfold lexlt. rewrite !Z.ltb_irrefl, andb_false_r. reflexivity. Qed.

Lemma lexlt_total a b : lexlt a b = false -> lexlt b a = false -> a = b.
Proof.
  destruct a as [a1 a2], b as [b1 b2]. unfold lexlt. cbn [fst snd]. intros H1 H2.
  apply orb_false_iff in H1, H2. destruct H1 as [H1 H1'], H2 as [H2 H2'].
  apply Z.ltb_ge in H1, H2. assert (a1 = b1) by lia. subst b1.
  rewrite Z.eqb_refl in H1', H2'. cbn in H1', H2'. apply Z.ltb_ge in H1', H2'. f_equal. lia.
Qed.

Lemma lexlt_trans a b c : lexlt a b = true -> lexlt b c = true -> lexlt a c = true.
Proof.
  destruct a as [a1 a2], b as [b1 b2], c as [c1 c2]. unfold lexlt. cbn [fst snd]. intros H1 H2.
  apply orb_true_iff in H1, H2. apply orb_true_iff.
  destruct H1 as [H1|H1], H2 as [H2|H2].
  - left. apply Z.ltb_lt in H1, H2. apply Z.ltb_lt. lia.
  - apply andb_true_iff in H2. destruct H2 as [H2 _]. apply Z.eqb_eq in H2. subst. left. exact H1.
  - apply andb_true_iff in H1. destruct H1 as [H1 _]. apply Z.eqb_eq in H1. subst. left. exact H2.
  - apply andb_true_iff in H1, H2. destruct H1 as [H1 H1'], H2 as [H2 H2'].
    apply Z.eqb_eq in H1, H2. subst. right. rewrite Z.eqb_refl. cbn.
    apply Z.ltb_lt in H1', H2'. apply Z.ltb_lt. lia.
Qed.

Lemma lexlt_asym a b : lexlt a b = true -> lexlt b a = false.
Proof.
  intros H. destruct (lexlt b a) eqn:E; [|reflexivity].
  pose proof (lexlt_trans _ _ _ H E) as Hc. rewrite lexlt_irrefl in Hc. discriminate.
Qed.

(* best D is an element's key and nothing in D is greater *)
Lemma best_cons a D : best (a :: D) = match best D with None => Some (rkey a) | Some y => Some (lexmax (rkey a) y) end.
Proof. reflexivity. Qed.
Lemma best_nil : best [] = None.
Proof. reflexivity. Qed.
Global Opaque best.

Lemma best_none D : best D = None <-> D = [].
Proof.
  destruct D as [|a D]; [rewrite best_nil; tauto|]. rewrite best_cons.
  destruct (best D); split; intros H; discriminate H.
Qed.

Lemma best_spec D m : best D = Some m ->
  (exists r, In r D /\ rkey r = m) /\ (forall r, In r D -> lexlt m (rkey r) = false).
Proof.
  revert m. induction D as [|a D IH]; [rewrite best_nil; discriminate|]. intros m. rewrite best_cons.
  destruct (best D) as [y|] eqn:Eb.
  - destruct (IH y eq_refl) as [[r0 [Hin0 Hk0]] Hmax]. intros H; injection H as <-.
    unfold lexmax. destruct (lexlt (rkey a) y) eqn:El.
    + split; [exists r0; split; [right; exact Hin0|exact Hk0]|]. intros r [->|Hr]; [apply lexlt_asym, El|apply Hmax, Hr].
    + split; [exists a; split; [left; reflexivity|reflexivity]|]. intros r [->|Hr]; [apply lexlt_irrefl|].
      specialize (Hmax r Hr). destruct (lexlt (rkey a) (rkey r)) eqn:E2; [|reflexivity].
      (* y <= key a < key r contradicts y maximal *)
      destruct (lexlt y (rkey a)) eqn:E3.
      * rewrite (lexlt_trans _ _ _ E3 E2) in Hmax. discriminate.
      * pose proof (lexlt_total _ _ El E3) as Heq. rewrite <- Heq, E2 in Hmax. discriminate.
  - apply best_none in Eb. subst D. intros H; injection H as <-.
    split; [exists a; split; [left; reflexivity|reflexivity]|]. intros r [->|[]]. apply lexlt_irrefl.
Qed.

Lemma best_unique D1 D2 m1 m2 :
  (forall r, In r D1 <-> In r D2) -> best D1 = Some m1 -> best D2 = Some m2 -> m1 = m2.
Proof.
  intros Heq H1 H2. apply best_spec in H1, H2.
  destruct H1 as [[r1 [Hi1 Hk1]] Hm1], H2 as [[r2 [Hi2 Hk2]] Hm2].
  apply lexlt_total.
  - rewrite <- Hk2. apply Hm1, Heq, Hi2.
  - rewrite <- Hk1. apply Hm2, Heq, Hi1.
Qed.

(* ---------- the invariant: state after merging Q (last element first) ---------- *)
Definition Inv (Q : list rec) (o : option rowst) : Prop :=
  match o with
  | None => Q = []
  | Some s =>
    Q <> [] /\ rw_cl s = maxcl Q /\
    (Z.even (maxcl Q) = true -> rw_col s = None) /\
    (Z.even (maxcl Q) = false ->
       match best (filter (is_top (maxcl Q)) Q) with
       | Some m => exists c, rw_col s = Some c /\ (c_colv c, c_val c) = m
       | None => match rw_col s with None => True | Some c => c_colv c = 0 end
       end)
  end.

Lemma inv_lcl Q o : Inv Q o -> local_cl o = maxcl Q.
Proof.
  destruct o as [s|]; cbn [Inv local_cl].
  - intros [_ [H _]]. exact H.
  - intros ->. symmetry. apply maxcl_nil.
Qed.

Lemma inv_same Q s r :
  Inv Q (Some s) -> maxcl (r :: Q) = maxcl Q ->
  (Z.even (maxcl Q) = false -> is_top (maxcl Q) r = false) -> Inv (r :: Q) (Some s).
Proof.
  intros [Hne [Hcl [Hev Hod]]] HM Ht. cbn [Inv]. rewrite HM.
  split; [discriminate|]. split; [exact Hcl|]. split; [exact Hev|].
  intros Hodd. cbn [filter]. rewrite (Ht Hodd). exact (Hod Hodd).
Qed.

Lemma inv_fresh Q r s :
  maxcl Q < r_cl r -> rw_cl s = r_cl r ->
  (Z.even (r_cl r) = true -> rw_col s = None) ->
  (Z.even (r_cl r) = false ->
     if r_sent r then match rw_col s with None => True | Some c => c_colv c = 0 end
     else exists c, rw_col s = Some c /\ (c_colv c, c_val c) = rkey r) ->
  Inv (r :: Q) (Some s).
Proof.
  intros Hlt Hcl Hev Hod. cbn [Inv].
  assert (HM : maxcl (r :: Q) = r_cl r) by (rewrite maxcl_cons; lia). rewrite HM.
  split; [discriminate|]. split; [exact Hcl|]. split; [exact Hev|]. intros Hodd. specialize (Hod Hodd).
  cbn [filter]. rewrite (filter_top_above _ _ Hlt). unfold is_top. rewrite Z.eqb_refl, andb_true_r.
  destruct (r_sent r); cbn [negb].
  - rewrite best_nil. exact Hod.
  - rewrite best_cons, best_nil. exact Hod.
Qed.

Lemma cid_wins_obs c r :
  cid_wins (Some c) r = true -> lexlt (rkey r) (c_colv c, c_val c) = false.
Proof.
  unfold cid_wins, lexlt, rkey. cbn [fst snd]. intros H.
  destruct (c_colv c <? r_colv r) eqn:E1.
  { apply Z.ltb_lt in E1. apply orb_false_iff. split; [apply Z.ltb_ge; lia|].
    destruct (r_colv r =? c_colv c) eqn:E; [apply Z.eqb_eq in E; lia|reflexivity]. }
  destruct (r_colv r <? c_colv c) eqn:E2; [discriminate|].
  apply Z.ltb_ge in E1, E2. cbn [orb]. assert (Heq : r_colv r = c_colv c) by lia. rewrite Heq, Z.eqb_refl. cbn [andb].
  destruct (c_val c <? r_val r) eqn:E3; [apply Z.ltb_lt in E3; apply Z.ltb_ge; lia|].
  destruct (r_val r <? c_val c) eqn:E4; [discriminate|reflexivity].
Qed.

Lemma cid_loses_obs c r :
  cid_wins (Some c) r = false ->
  lexlt (rkey r) (c_colv c, c_val c) = true \/ rkey r = (c_colv c, c_val c).
Proof.
  unfold cid_wins, lexlt, rkey. cbn [fst snd]. intros H.
  destruct (c_colv c <? r_colv r) eqn:E1; [discriminate|].
  destruct (r_colv r <? c_colv c) eqn:E2; [left; reflexivity|].
  apply Z.ltb_ge in E1, E2. assert (Heq : r_colv r = c_colv c) by lia. rewrite Heq, Z.eqb_refl. cbn [orb andb].
  destruct (c_val c <? r_val r) eqn:E3; [discriminate|].
  destruct (r_val r <? c_val c) eqn:E4; [left; reflexivity|].
  apply Z.ltb_ge in E3, E4. right. f_equal. lia.
Qed.

Lemma inv_step Q o r : Inv Q o -> rec_ok r = true -> Inv (r :: Q) (merge_row o r).
Proof.
  intros HI Hok. pose proof (inv_lcl _ _ HI) as Hl.
  unfold rec_ok in Hok. apply andb_true_iff in Hok. destruct Hok as [Hcl Hcv]. apply Z.leb_le in Hcl.
  pose proof (maxcl_nonneg Q) as HM0.
  unfold merge_row. rewrite Hl.
  destruct (r_cl r <? maxcl Q) eqn:E1.
  { (* an older generation: ignored *)
    apply Z.ltb_lt in E1. destruct o as [s|]; [|cbn [Inv] in HI; subst Q; rewrite maxcl_nil in E1; lia].
    apply inv_same; [exact HI|rewrite maxcl_cons; lia|]. intros _.
    unfold is_top. destruct (r_cl r =? maxcl Q) eqn:E; [apply Z.eqb_eq in E; lia|apply andb_false_r]. }
  apply Z.ltb_ge in E1.
  destruct (Z.even (r_cl r)) eqn:Eev.
  { destruct (r_cl r =? maxcl Q) eqn:E2.
    - apply Z.eqb_eq in E2. destruct o as [s|]; [|cbn [Inv] in HI; subst Q; rewrite maxcl_nil in E2; lia].
      apply inv_same; [exact HI|rewrite maxcl_cons; lia|].
      (* an even generation: the data records of it are never looked at *)
      intros Hodd. rewrite <- E2, Eev in Hodd. discriminate.
    - apply Z.eqb_neq in E2. apply inv_fresh; [lia|reflexivity|reflexivity|rewrite Eev; discriminate]. }
  destruct (r_sent r) eqn:Es.
  { destruct (r_cl r =? maxcl Q) eqn:E2.
    - apply Z.eqb_eq in E2. destruct o as [s|]; [|cbn [Inv] in HI; subst Q; rewrite maxcl_nil in E2; lia].
      apply inv_same; [exact HI|rewrite maxcl_cons; lia|]. intros _. unfold is_top. rewrite Es. reflexivity.
    - apply Z.eqb_neq in E2. apply inv_fresh; [lia|reflexivity|rewrite Eev; discriminate|].
      intros _. rewrite Es. cbn [rw_col]. destruct o as [s|]; [|exact I].
      destruct (rw_col s) as [c|]; [reflexivity|exact I]. }
  cbn [orb] in Hcv. apply Z.leb_le in Hcv.
  destruct (maxcl Q <? r_cl r) eqn:E3.
  { apply Z.ltb_lt in E3. apply inv_fresh; [exact E3|reflexivity|rewrite Eev; discriminate|].
    intros _. rewrite Es. cbn [rw_col]. eexists. split; reflexivity. }
  apply Z.ltb_ge in E3. assert (HeqM : r_cl r = maxcl Q) by lia.
  destruct o as [s|]; [|cbn [Inv] in HI; subst Q; rewrite maxcl_nil in HeqM; lia].
  destruct HI as [Hne [Hcls [Hev Hod]]].
  assert (HoddM : Z.even (maxcl Q) = false) by (rewrite <- HeqM; exact Eev).
  specialize (Hod HoddM).
  assert (HM : maxcl (r :: Q) = maxcl Q) by (rewrite maxcl_cons; lia).
  assert (Htop : is_top (maxcl Q) r = true) by (unfold is_top; rewrite Es, HeqM, Z.eqb_refl; reflexivity).
  destruct (cid_wins (rw_col s) r) eqn:Ew.
  - cbn [Inv]. rewrite HM. cbn [filter]. rewrite Htop, best_cons.
    split; [discriminate|]. split; [exact Hcls|]. split; [rewrite HoddM; discriminate|]. intros _.
    cbn [rw_col]. destruct (best (filter (is_top (maxcl Q)) Q)) as [m|].
    + destruct Hod as [c [Hc Hk]]. rewrite Hc in Ew. apply cid_wins_obs in Ew. rewrite Hk in Ew.
      unfold lexmax. rewrite Ew. eexists. split; reflexivity.
    + eexists. split; reflexivity.
  - cbn [Inv]. rewrite HM. cbn [filter]. rewrite Htop, best_cons.
    split; [discriminate|]. split; [exact Hcls|]. split; [exact Hev|]. intros _.
    destruct (best (filter (is_top (maxcl Q)) Q)) as [m|].
    + destruct Hod as [c [Hc Hk]]. rewrite Hc in Ew. apply cid_loses_obs in Ew. rewrite Hk in Ew.
      exists c. split; [exact Hc|]. rewrite Hk. unfold lexmax.
      destruct Ew as [Ew|Ew]; [rewrite Ew; reflexivity|]. rewrite Ew, lexlt_irrefl. reflexivity.
    + (* nothing of this generation yet: the column is absent or zeroed, so the record wins *)
      exfalso. destruct (rw_col s) as [c|] eqn:Ec; [|cbn in Ew; discriminate].
      unfold cid_wins in Ew. rewrite Hod in Ew.
      destruct (0 <? r_colv r) eqn:E; [discriminate|apply Z.ltb_ge in E; lia].
Qed.

Lemma inv_all Q : forallb rec_ok Q = true -> Inv Q (fold_right (fun r o => merge_row o r) None Q).
Proof.
  induction Q as [|r Q IH]; cbn [forallb fold_right]; [intros _; reflexivity|].
  intros H. apply andb_true_iff in H. destruct H as [Hr HQ]. apply inv_step; [apply IH, HQ|exact Hr].
Qed.

Lemma inv_spec Q o : Inv Q o -> wf_row Q = true -> option_map row_obs o = row_spec Q.
Proof.
  intros HI Hwf. unfold wf_row in Hwf. apply andb_true_iff in Hwf. destruct Hwf as [_ Hwf].
  destruct o as [s|]; cbn [Inv] in HI.
  - destruct HI as [Hne [Hcl [Hev Hod]]]. unfold row_spec. destruct Q as [|q Q']; [congruence|].
    cbn [option_map]. unfold row_obs. rewrite Hcl. cbv zeta.
    destruct (Z.even (maxcl (q :: Q'))) eqn:E.
    + rewrite (Hev eq_refl). reflexivity.
    + specialize (Hod eq_refl). cbn [orb] in Hwf.
      destruct (best (filter (is_top (maxcl (q :: Q'))) (q :: Q'))) as [[cv v]|] eqn:Eb.
      * destruct Hod as [c [Hc Hk]]. rewrite Hc. injection Hk as <- <-. reflexivity.
      * exfalso. apply best_none in Eb. apply existsb_exists in Hwf. destruct Hwf as [x [Hin Hx]].
        assert (Hf : In x (filter (is_top (maxcl (q :: Q'))) (q :: Q'))) by (apply filter_In; split; assumption).
        rewrite Eb in Hf. exact Hf.
  - subst Q. reflexivity.
Qed.

(* ---------- the specification only depends on which records there are ---------- *)
Definition same_members (P1 P2 : list rec) : Prop := forall r, In r P1 <-> In r P2.

Lemma ok_pos P : forallb rec_ok P = true -> forall r, In r P -> 0 <= r_cl r.
Proof.
  intros H0 r Hr. rewrite forallb_forall in H0. specialize (H0 r Hr). unfold rec_ok in H0.
  apply andb_true_iff in H0. destruct H0 as [H0 _]. apply Z.leb_le in H0. lia.
Qed.

Lemma ok_members P1 P2 : same_members P1 P2 -> forallb rec_ok P1 = true -> forallb rec_ok P2 = true.
Proof.
  intros Hm H1. apply forallb_forall. intros x Hx. apply Hm in Hx. revert x Hx. apply forallb_forall. exact H1.
Qed.

Lemma members_nil P : same_members [] P -> P = [].
Proof. intros Hm. destruct P as [|p P]; [reflexivity|]. exfalso. apply (Hm p). left. reflexivity. Qed.

Lemma maxcl_members P1 P2 : same_members P1 P2 -> forallb rec_ok P1 = true -> maxcl P1 = maxcl P2.
Proof.
  intros Hm H1. pose proof (ok_members _ _ Hm H1) as H2.
  destruct P1 as [|p P1'].
  - apply members_nil in Hm. subst P2. reflexivity.
  - assert (Hne2 : P2 <> []) by (intros ->; apply (Hm p); left; reflexivity).
    destruct (maxcl_attained (p :: P1')) as [r1 [Hi1 He1]]; [discriminate|apply ok_pos, H1|].
    destruct (maxcl_attained P2) as [r2 [Hi2 He2]]; [exact Hne2|apply ok_pos, H2|].
    apply Hm in Hi1. apply Hm in Hi2. pose proof (maxcl_ub _ _ Hi1). pose proof (maxcl_ub _ _ Hi2). lia.
Qed.

Lemma filter_members (f : rec -> bool) P1 P2 : same_members P1 P2 -> same_members (filter f P1) (filter f P2).
Proof.
  intros Hm r. rewrite !filter_In. split; intros [H1 H2]; (split; [apply Hm, H1|exact H2]).
Qed.

Lemma wf_row_members P1 P2 : same_members P1 P2 -> wf_row P1 = true -> wf_row P2 = true.
Proof.
  intros Hm Hwf. unfold wf_row in *. apply andb_true_iff in Hwf. destruct Hwf as [H1 H2].
  rewrite (ok_members _ _ Hm H1), <- (maxcl_members _ _ Hm H1). cbn [andb].
  apply orb_true_iff in H2. apply orb_true_iff. destruct H2 as [H2|H2]; [left; exact H2|right].
  apply existsb_exists in H2. destruct H2 as [x [Hx Ht]]. apply existsb_exists. exists x. split; [apply Hm, Hx|exact Ht].
Qed.

Theorem row_spec_members P1 P2 :
  same_members P1 P2 -> forallb rec_ok P1 = true -> row_spec P1 = row_spec P2.
Proof.
  intros Hm H1. unfold row_spec. rewrite <- (maxcl_members _ _ Hm H1).
  destruct P1 as [|p P1'].
  { apply members_nil in Hm. subst P2. reflexivity. }
  destruct P2 as [|q P2']; [exfalso; apply (Hm p); left; reflexivity|]. cbv zeta.
  destruct (Z.even (maxcl (p :: P1'))); [reflexivity|].
  pose proof (filter_members (is_top (maxcl (p :: P1'))) _ _ Hm) as Hf.
  destruct (best (filter (is_top (maxcl (p :: P1'))) (p :: P1'))) as [m1|] eqn:E1;
  destruct (best (filter (is_top (maxcl (p :: P1'))) (q :: P2'))) as [m2|] eqn:E2.
  - rewrite (best_unique _ _ _ _ Hf E1 E2). reflexivity.
  - exfalso. apply best_none in E2. apply best_spec in E1. destruct E1 as [[r [Hr _]] _].
    apply Hf in Hr. rewrite E2 in Hr. exact Hr.
  - exfalso. apply best_none in E1. apply best_spec in E2. destruct E2 as [[r [Hr _]] _].
    apply Hf in Hr. rewrite E1 in Hr. exact Hr.
  - reflexivity.
Qed.

Lemma members_rev P : same_members (rev P) P.
Proof. intros r. symmetry. apply in_rev. Qed.

(* the state of one row after merging P in the given order, from nothing *)
Theorem merge_rows_spec P :
  wf_row P = true -> option_map row_obs (fold_left merge_row P None) = row_spec P.
Proof.
  intros Hwf. rewrite <- fold_left_rev_right.
  assert (Hm : same_members P (rev P)) by (intros r; apply in_rev).
  pose proof (wf_row_members _ _ Hm Hwf) as Hwf'.
  assert (Hok : forallb rec_ok (rev P) = true) by (unfold wf_row in Hwf'; apply andb_true_iff in Hwf'; apply Hwf').
  rewrite <- (row_spec_members _ _ (members_rev P) Hok).
  apply inv_spec; [apply inv_all, Hok|exact Hwf'].
Qed.

(* any two orders, any duplication, any omission of repeated records: same observable row *)
Theorem merge_rows_converge P1 P2 :
  same_members P1 P2 -> wf_row P1 = true ->
  option_map row_obs (fold_left merge_row P1 None) = option_map row_obs (fold_left merge_row P2 None).
Proof.
  intros Hm Hwf. rewrite (merge_rows_spec _ Hwf), (merge_rows_spec _ (wf_row_members _ _ Hm Hwf)).
  apply row_spec_members; [exact Hm|]. unfold wf_row in Hwf. apply andb_true_iff in Hwf. apply Hwf.
Qed.

(* ---------- records that were superseded may be missing ---------- *)
(* r is dominated by r' when r' alone already decides at least as much: a newer generation, or
   the same generation and (r is only a marker, or both carry a value and r' carries the
   greater (column version, value)) *)
Definition dominated (r r' : rec) : Prop :=
  r_cl r < r_cl r' \/
  (r_cl r = r_cl r' /\ (r_sent r = true \/ (r_sent r' = false /\ lexlt (rkey r') (rkey r) = false))).

Lemma lexle_trans a b c : lexlt b a = false -> lexlt c b = false -> lexlt c a = false.
Proof.
  intros H1 H2. destruct (lexlt c a) eqn:E; [|reflexivity].
  destruct (lexlt a b) eqn:E3.
  - rewrite (lexlt_trans _ _ _ E E3) in H2. discriminate.
  - pose proof (lexlt_total _ _ E3 H1) as Heq. subst b. rewrite E in H2. discriminate.
Qed.

Theorem row_spec_superseded P1 P2 :
  (forall r, In r P2 -> In r P1) ->
  (forall r, In r P1 -> In r P2 \/ exists r', In r' P2 /\ dominated r r') ->
  forallb rec_ok P1 = true -> wf_row P2 = true ->
  row_spec P1 = row_spec P2.
Proof.
  intros Hsub Hdom H1 Hwf2. unfold wf_row in Hwf2. apply andb_true_iff in Hwf2. destruct Hwf2 as [H2 Htop2].
  assert (HM : maxcl P1 = maxcl P2).
  { destruct P1 as [|p P1'].
    - destruct P2 as [|q P2']; [reflexivity|]. exfalso. apply (Hsub q). left. reflexivity.
    - destruct (maxcl_attained (p :: P1')) as [r1 [Hi1 He1]]; [discriminate|apply ok_pos, H1|].
      assert (Hle : maxcl (p :: P1') <= maxcl P2).
      { destruct (Hdom _ Hi1) as [Hin|[r' [Hin Hd]]].
        - pose proof (maxcl_ub _ _ Hin). lia.
        - pose proof (maxcl_ub _ _ Hin). destruct Hd as [Hd|[Hd _]]; lia. }
      assert (Hge : maxcl P2 <= maxcl (p :: P1')).
      { destruct P2 as [|q P2']; [rewrite maxcl_nil; apply maxcl_nonneg|].
        destruct (maxcl_attained (q :: P2')) as [r2 [Hi2 He2]]; [discriminate|apply ok_pos, H2|].
        apply Hsub in Hi2. pose proof (maxcl_ub _ _ Hi2). lia. }
      lia. }
  unfold row_spec. rewrite HM.
  destruct P1 as [|p P1'].
  { destruct P2 as [|q P2']; [reflexivity|]. exfalso. apply (Hsub q). left. reflexivity. }
  destruct P2 as [|q P2'].
  { exfalso. destruct (Hdom p (or_introl eq_refl)) as [[]|[r' [[] _]]]. }
  cbv zeta. destruct (Z.even (maxcl (q :: P2'))) eqn:Eev; [reflexivity|]. cbn [orb] in Htop2.
  set (M := maxcl (q :: P2')) in *.
  destruct (best (filter (is_top M) (q :: P2'))) as [m2|] eqn:E2.
  2:{ exfalso. apply best_none in E2. apply existsb_exists in Htop2. destruct Htop2 as [x [Hx Ht]].
      assert (Hf : In x (filter (is_top M) (q :: P2'))) by (apply filter_In; split; assumption).
      rewrite E2 in Hf. exact Hf. }
  destruct (best (filter (is_top M) (p :: P1'))) as [m1|] eqn:E1.
  2:{ exfalso. apply best_none in E1. apply best_spec in E2. destruct E2 as [[r [Hr _]] _].
      apply filter_In in Hr. destruct Hr as [Hr Ht]. apply Hsub in Hr.
      assert (Hf : In r (filter (is_top M) (p :: P1'))) by (apply filter_In; split; assumption).
      rewrite E1 in Hf. exact Hf. }
  apply best_spec in E1, E2. destruct E1 as [[r1 [Hi1 Hk1]] Hm1], E2 as [[r2 [Hi2 Hk2]] Hm2].
  assert (Heq : m1 = m2).
  { apply lexlt_total.
    - (* m2 is the key of a record of P2, which is in P1 *)
      rewrite <- Hk2. apply Hm1. apply filter_In in Hi2. destruct Hi2 as [Hi2 Ht]. apply filter_In. split; [apply Hsub, Hi2|exact Ht].
    - (* m1 is the key of r1 in P1: in P2, or dominated by a record of P2 *)
      rewrite <- Hk1. apply filter_In in Hi1. destruct Hi1 as [Hi1 Ht1].
      unfold is_top in Ht1. apply andb_true_iff in Ht1. destruct Ht1 as [Hs1 Hc1].
      apply negb_true_iff in Hs1. apply Z.eqb_eq in Hc1.
      destruct (Hdom _ Hi1) as [Hin|[r' [Hin Hd]]].
      + apply Hm2. apply filter_In. split; [exact Hin|]. unfold is_top. rewrite Hs1, Hc1, Z.eqb_refl. reflexivity.
      + pose proof (maxcl_ub _ _ Hin) as Hub. fold M in Hub.
        destruct Hd as [Hd|[Hc [Hd|[Hs' Hk']]]]; [lia|congruence|].
        apply (lexle_trans _ (rkey r')); [exact Hk'|].
        apply Hm2. apply filter_In. split; [exact Hin|]. unfold is_top. rewrite Hs', <- Hc, Hc1, Z.eqb_refl. reflexivity. }
  rewrite Heq. reflexivity.
Qed.

(* ---------- lifting to the database ---------- *)
Lemma merge_all_get rs : forall d k,
  dget k (merge_all d rs) = fold_left merge_row (on_row k rs) (dget k d).
Proof.
  unfold merge_all, on_row. induction rs as [|r rs IH]; intros d k; cbn [fold_left filter]; [reflexivity|].
  rewrite IH, merge_get. rewrite (Z.eqb_sym k (r_row r)).
  destruct (r_row r =? k) eqn:E; cbn [fold_left]; [apply Z.eqb_eq in E; subst k|]; reflexivity.
Qed.

(* sorted association lists are determined by their lookups *)
Section Assoc.
  Context {A : Type}.
  Fixpoint aget (k : Z) (l : list (Z * A)) : option A :=
    match l with [] => None | (k', v) :: t => if k =? k' then Some v else aget k t end.
  Fixpoint asorted (l : list (Z * A)) : Prop :=
    match l with [] => True | (k, _) :: t => (forall k' v', In (k', v') t -> k < k') /\ asorted t end.

  Lemma aget_below k l : (forall k' v', In (k', v') l -> k < k') -> aget k l = None.
  Proof.
    induction l as [|[k0 v0] t IH]; intros Hb; cbn [aget]; [reflexivity|].
    destruct (k =? k0) eqn:E.
    - apply Z.eqb_eq in E. subst k0. specialize (Hb k v0 (or_introl eq_refl)). lia.
    - apply IH. intros k' v' Hin. apply (Hb k' v'). right. exact Hin.
  Qed.

  Lemma asorted_ext l1 : forall l2, asorted l1 -> asorted l2 -> (forall k, aget k l1 = aget k l2) -> l1 = l2.
  Proof.
    induction l1 as [|[k1 v1] t1 IH]; intros [|[k2 v2] t2] Hs1 Hs2 Hget.
    - reflexivity.
    - specialize (Hget k2). cbn [aget] in Hget. rewrite Z.eqb_refl in Hget. discriminate.
    - specialize (Hget k1). cbn [aget] in Hget. rewrite Z.eqb_refl in Hget. discriminate.
    - cbn [asorted] in Hs1, Hs2. destruct Hs1 as [Hb1 Hs1], Hs2 as [Hb2 Hs2].
      assert (Hk : k1 = k2).
      { destruct (Z.lt_trichotomy k1 k2) as [Hlt|[Heq|Hgt]]; [exfalso|exact Heq|exfalso].
        - specialize (Hget k1). cbn [aget] in Hget. rewrite Z.eqb_refl in Hget.
          destruct (k1 =? k2) eqn:E; [apply Z.eqb_eq in E; lia|].
          rewrite aget_below in Hget; [discriminate|]. intros k' v' Hin. specialize (Hb2 k' v' Hin). lia.
        - specialize (Hget k2). cbn [aget] in Hget. rewrite Z.eqb_refl in Hget.
          destruct (k2 =? k1) eqn:E; [apply Z.eqb_eq in E; lia|].
          rewrite aget_below in Hget; [discriminate|]. intros k' v' Hin. specialize (Hb1 k' v' Hin). lia. }
      subst k2.
      assert (Hv : v1 = v2).
      { specialize (Hget k1). cbn [aget] in Hget. rewrite Z.eqb_refl in Hget. congruence. }
      subst v2. f_equal. apply IH; [exact Hs1|exact Hs2|]. intros k.
      destruct (k =? k1) eqn:E.
      + apply Z.eqb_eq in E. subst k. rewrite !aget_below; [reflexivity|exact Hb2|exact Hb1].
      + specialize (Hget k). cbn [aget] in Hget. rewrite E in Hget. exact Hget.
  Qed.
End Assoc.

Lemma dget_aget k d : dget k d = aget k d.
Proof. induction d as [|[k0 v0] t IH]; cbn [dget aget]; [reflexivity|]. rewrite IH. reflexivity. Qed.

Lemma dset_in k v d k' v' : In (k', v') (dset k v d) -> (k', v') = (k, v) \/ In (k', v') d.
Proof.
  induction d as [|[k0 v0] t IH]; cbn [dset].
  - intros [H|[]]. left. symmetry. exact H.
  - destruct (k =? k0) eqn:E1.
    + intros [H|H]; [left; symmetry; exact H|right; right; exact H].
    + destruct (k <? k0) eqn:E2.
      * intros [H|H]; [left; symmetry; exact H|right; exact H].
      * intros [H|H]; [right; left; exact H|]. destruct (IH H) as [H'|H']; [left; exact H'|right; right; exact H'].
Qed.

Lemma dset_sorted k v d : asorted d -> asorted (dset k v d).
Proof.
  induction d as [|[k0 v0] t IH]; cbn [dset asorted].
  - intros _. split; [intros k' v' []|exact I].
  - intros [Hb Hs]. destruct (k =? k0) eqn:E1.
    + apply Z.eqb_eq in E1. subst k0. cbn [asorted]. split; assumption.
    + apply Z.eqb_neq in E1. destruct (k <? k0) eqn:E2.
      * apply Z.ltb_lt in E2. cbn [asorted]. split; [|split; assumption].
        intros k' v' [H|H]; [injection H as <- _; exact E2|]. specialize (Hb k' v' H). lia.
      * apply Z.ltb_ge in E2. cbn [asorted]. split; [|apply IH, Hs].
        intros k' v' H. apply dset_in in H. destruct H as [H|H]; [injection H as -> _; lia|apply (Hb k' v' H)].
Qed.

Lemma merge_sorted d r : asorted d -> asorted (merge d r).
Proof.
  intros Hs. unfold merge.
  destruct (r_cl r <? local_cl (dget (r_row r) d)); [exact Hs|].
  destruct (Z.even (r_cl r)).
  { destruct (r_cl r =? local_cl (dget (r_row r) d)); [exact Hs|apply dset_sorted, Hs]. }
  destruct (r_sent r).
  { destruct (r_cl r =? local_cl (dget (r_row r) d)); [exact Hs|apply dset_sorted, Hs]. }
  destruct (local_cl (dget (r_row r) d) <? r_cl r); [apply dset_sorted, Hs|].
  destruct (dget (r_row r) d) as [s|]; [|exact Hs].
  destruct (cid_wins (rw_col s) r); [apply dset_sorted, Hs|exact Hs].
Qed.

Lemma merge_all_sorted rs : forall d, asorted d -> asorted (merge_all d rs).
Proof.
  unfold merge_all. induction rs as [|r rs IH]; intros d Hs; cbn [fold_left]; [exact Hs|].
  apply IH, merge_sorted, Hs.
Qed.

Lemma omap_get k d : aget k (omap d) = option_map row_obs (dget k d).
Proof.
  unfold omap. induction d as [|[k0 v0] t IH]; cbn [map aget dget fst snd]; [reflexivity|].
  destruct (k =? k0); [reflexivity|exact IH].
Qed.

Lemma omap_sorted d : asorted d -> asorted (omap d).
Proof.
  unfold omap. induction d as [|[k0 v0] t IH]; cbn [map asorted fst snd]; [intros _; exact I|].
  intros [Hb Hs]. split; [|apply IH, Hs].
  intros k' v' Hin. apply in_map_iff in Hin. destruct Hin as [[k1 s1] [Heq Hin]]. cbn [fst snd] in Heq.
  injection Heq as -> _. apply (Hb k' s1 Hin).
Qed.

(* what the tables show and the per-cell versions are functions of the observable part *)
Definition table_of (m : list (Z * robs)) : list (Z * option Z) :=
  flat_map (fun kv => if Z.odd (fst (snd kv)) then [(fst kv, option_map fst (snd (snd kv)))] else []) m.
Definition versions_of (m : list (Z * robs)) : list (Z * Z * option Z) :=
  map (fun kv => (fst kv, fst (snd kv), option_map snd (snd (snd kv)))) m.

Lemma table_omap d : table d = table_of (omap d).
Proof.
  unfold table, table_of, omap. induction d as [|[k0 s] t IH]; cbn [flat_map map fst snd]; [reflexivity|].
  rewrite IH. f_equal. unfold row_obs. cbn [fst snd]. destruct (rw_col s); reflexivity.
Qed.

Lemma versions_omap d : versions d = versions_of (omap d).
Proof.
  unfold versions, versions_of, omap. rewrite map_map. apply map_ext. intros [k0 s]. cbn [fst snd].
  unfold row_obs. cbn [fst snd]. destruct (rw_col s); reflexivity.
Qed.

Lemma on_row_members k rs1 rs2 : same_members rs1 rs2 -> same_members (on_row k rs1) (on_row k rs2).
Proof. apply filter_members. Qed.

(* CONVERGENCE: two nodes that merged the same records -- in any order, any number of times --
   show the same tables and the same per-cell versions *)
Theorem converge_omap rs1 rs2 :
  wf rs1 -> same_members rs1 rs2 -> omap (merge_all [] rs1) = omap (merge_all [] rs2).
Proof.
  intros Hwf Hm. apply asorted_ext.
  - apply omap_sorted, merge_all_sorted. exact I.
  - apply omap_sorted, merge_all_sorted. exact I.
  - intros k. rewrite !omap_get, !merge_all_get. cbn [dget].
    apply merge_rows_converge; [apply on_row_members, Hm|apply Hwf].
Qed.

Theorem converge_tables rs1 rs2 :
  wf rs1 -> same_members rs1 rs2 ->
  table (merge_all [] rs1) = table (merge_all [] rs2) /\ versions (merge_all [] rs1) = versions (merge_all [] rs2).
Proof.
  intros Hwf Hm. rewrite !table_omap, !versions_omap, (converge_omap _ _ Hwf Hm). split; reflexivity.
Qed.

(* ... and the outcome is the order-free specification, row by row *)
Theorem merge_all_spec rs k :
  wf rs -> option_map row_obs (dget k (merge_all [] rs)) = row_spec (on_row k rs).
Proof. intros Hwf. rewrite merge_all_get. cbn [dget]. apply merge_rows_spec, Hwf. Qed.

(* a node that never received records that were superseded (overwritten cells are not kept by
   the origin, their versions are served as cleared) still shows the same thing *)
Theorem converge_superseded rs1 rs2 :
  wf rs1 -> wf rs2 ->
  (forall r, In r rs2 -> In r rs1) ->
  (forall r, In r rs1 -> In r rs2 \/ exists r', In r' rs2 /\ r_row r' = r_row r /\ dominated r r') ->
  table (merge_all [] rs1) = table (merge_all [] rs2) /\ versions (merge_all [] rs1) = versions (merge_all [] rs2).
Proof.
  intros Hwf1 Hwf2 Hsub Hdom.
  assert (Ho : omap (merge_all [] rs1) = omap (merge_all [] rs2)).
  { apply asorted_ext.
    - apply omap_sorted, merge_all_sorted. exact I.
    - apply omap_sorted, merge_all_sorted. exact I.
    - intros k. rewrite !omap_get, !merge_all_spec by assumption.
      apply row_spec_superseded.
      + intros r Hr. unfold on_row in *. apply filter_In in Hr. destruct Hr as [Hr Hk]. apply filter_In. split; [apply Hsub, Hr|exact Hk].
      + intros r Hr. unfold on_row in *. apply filter_In in Hr. destruct Hr as [Hr Hk].
        destruct (Hdom r Hr) as [Hin|[r' [Hin [Hrow Hd]]]].
        * left. apply filter_In. split; assumption.
        * right. exists r'. split; [|exact Hd]. apply filter_In. split; [exact Hin|]. rewrite Hrow. exact Hk.
      + specialize (Hwf1 k). unfold wf_row in Hwf1. apply andb_true_iff in Hwf1. apply Hwf1.
      + apply Hwf2. }
  rewrite !table_omap, !versions_omap, Ho. split; reflexivity.
Qed.
