"""C01 — replicas converge. Layer 1: the merge model vs the real extension."""
import random, re
import vlib, flow


def rec_tokens(r, rank):
    # "row/C:val:colv:cl:site:dbv:seq"
    m = re.match(r"(\d+)/([ST]):(\S*?):(\d+):(\d+):(\d+):(\d+):(\d+)$", r)
    row, c, val, colv, cl, site, dbv, seq = m.groups()
    v = "-1" if val in ("-", "") else str(int(val))
    return [row, c, v, colv, cl, str(rank[int(site)]), dbv, seq]


class C01(flow.Spec):
    pid = "C01"
    shards = 16
    rule = ("layer 1 (merge model vs the real extension): 2-3 real CRR databases doing local upserts/updates/deletes/re-inserts on "
            "two rows, every produced change record can be merged into any site any number of times in any order; after every "
            "operation the touched site's crsql_changes and table must equal the model's (records are inputs of the model, site-id "
            "order is read from the run); oracle chk_spec: for every site, every row whose collection of produced-or-merged records "
            "is well-formed must show exactly row_spec of that collection (the order-free specification the convergence theorems are "
            "about, evaluated by the extracted Coq function on the real extension's final state). layer 2 (cluster): 2-3 REAL agents, the harness is the network: local transactions "
            "(multi-row, conflicting writes to the same cells from different nodes, deletes), broadcast delivery in order / "
            "reversed / with omissions / duplicated / cut in two chunks (first half only, second half only, or second half first), relays that hold only the tail of a version serving a third node, lossy and "
            "loss-free pairwise sync sessions (generate_sync -> compute_available_needs -> the real sync server -> "
            "process_multiple_changes), buffered applies; then loss-free all-pairs rounds. Oracle: all nodes show identical "
            "tables and identical (value, column version, causal length) per cell, no need / partial need is left, heads agree, "
            "every visible value was written by an acknowledged transaction, and quiescence is reached within the round budget. "
            "oracle chk_cluster: at quiescence every node's table must equal the extracted table (merge_all [] U), U = the records "
            "all origins broadcast, whenever U satisfies the cluster theorem's hypotheses (wf, no_tie, clk_unique); a family of "
            "histories with two nodes deleting one row concurrently and a third served by relays (sync mode 2) exercises the excluded class. "
            "non-trivial = distinct history with writes on >= 2 nodes")
    assumptions = ["cr-sqlite's merge is a binary extension: Model/Crdt.v is validated by differential testing (one data column, integer keys), not verified",
                   "site attribution of clock rows (which depends on merge order for equal-value ties and sentinel rows) is excluded from the convergence comparison, as in the property",
                   "fairness: after writes stop every pair of nodes completes loss-free sessions (the harness schedules them); peer choice by SWIM/RTT is not part of this check",
                   "convergence is a theorem for the CRDT layer (same record set => same tables and versions, for every order and duplication; superseded records may be missing), under the well-formedness hypothesis wf (checked on the real record sets by chk_spec), and at cluster level for Model/Cluster.v (whole versions, servers hand out their live records): a node that knows every acknowledged version shows the merge of all acknowledged records, for every history without two unordered records of one row (no_tie; necessary: known finding concurrent-deletes); the cluster model is tied to the code by C03/C05 and by the chk_cluster oracle on the real agents, not step by step; eventual quiescence under fair scheduling is checked on the real system, not proved"]

    def cases(self, tier, seed):
        rnd = random.Random(seed)
        out = []
        N = 2000 if tier == "quick" else 30000
        for _ in range(N):
            ns = rnd.choice([2, 2, 3])
            ops = []
            nprod = 0
            for _ in range(rnd.randrange(3, 22)):
                if rnd.random() < 0.45 or nprod == 0:
                    ops.append("W %d %s %d %d" % (rnd.randrange(ns), rnd.choice("IIUX"), rnd.randrange(1, 3), rnd.randrange(0, 20)))
                    nprod += 2
                else:
                    ops.append("G %d %d" % (rnd.randrange(ns), rnd.randrange(0, 1000)))
            out.append(("crdtsim %d %d %s" % (ns, len(ops), " ".join(ops)), {"crdt-sim"}))
        M = 60 if tier == "quick" else 2500
        for _ in range(M):
            nn = rnd.choice([2, 2, 3])
            ops, tags = [], {"cluster", "nodes=%d" % nn}
            writers = set()
            for _ in range(rnd.randrange(3, 16)):
                x = rnd.random()
                if x < 0.45:
                    n = rnd.randrange(nn); writers.add(n)
                    k = rnd.choice([1, 1, 2, 3])
                    st = []
                    for _ in range(k):
                        kind = rnd.choice("IIIUX")
                        st.append("%s %d %d" % (kind, rnd.randrange(1, 4), rnd.randrange(1, 9000)))
                    ops.append("T %d %d %s" % (n, k, " ".join(st)))
                elif x < 0.75:
                    n = rnd.randrange(nn); m = rnd.randrange(nn)
                    mode = rnd.choice([0, 0, 1, 2, 3, 4, 4, 5, 6])
                    if mode in (4, 5, 6):
                        tags.add("chunked-broadcast")
                    if mode == 2:
                        tags.add("lossy-broadcast")
                    ops.append("B %d %d %d" % (n, m, mode))
                elif x < 0.93:
                    lossy = 1 if rnd.random() < 0.4 else 0
                    ops.append("S %d %d %d" % (rnd.randrange(nn), rnd.randrange(nn), lossy))
                else:
                    ops.append("A %d" % rnd.randrange(nn))
            if len(writers) >= 2:
                tags.add("concurrent-writers")
            out.append(("cluster %d %d %s 6" % (nn, len(ops), " ".join(ops)), tags))
        # a relay that holds only the END of a multi-change version (its first broadcast chunk was lost) serves a
        # third node, which knows nothing of the version yet; later everybody syncs with everybody
        R = 4 if tier == "quick" else 40
        for _ in range(R):
            a, b = rnd.sample([0, 1, 2], 2)
            c = 3 - a - b
            k = rnd.choice([2, 3, 4])
            st = " ".join("I %d %d" % (r, rnd.randrange(1, 9000)) for r in rnd.sample(range(1, 9), k))
            ops = ["T %d %d %s" % (a, k, st), "B %d %d 6" % (a, b), "S %d %d 0" % (c, b)]
            if rnd.random() < 0.5:
                ops.append("S %d %d 0" % (c, b))
            out.append(("cluster 3 %d %s 6" % (len(ops), " ".join(ops)), {"cluster", "nodes=3", "chunked-broadcast", "relay-holds-tail-only"}))
        # a node holds only the HEAD of a version; the tail it lacks is overwritten at the origin before it
        # asks: the server answers the missing seq range with a chunk without changes, which completes the
        # version at the receiver (what it buffered must be applied, not discarded)
        O = 4 if tier == "quick" else 40
        for _ in range(O):
            a, b = rnd.sample([0, 1, 2], 2)
            c = 3 - a - b
            r1, r2 = rnd.sample(range(1, 9), 2)
            ops = ["T %d 2 I %d %d I %d %d" % (a, r1, rnd.randrange(1, 9000), r2, rnd.randrange(1, 9000)), "B %d %d 4" % (a, c)]
            if rnd.random() < 0.5:
                ops += ["B %d %d 0" % (a, b), "T %d 1 I %d %d" % (a, r2, rnd.randrange(1, 9000)), "B %d %d 0" % (a, b), "S %d %d 0" % (c, b)]
            else:
                ops += ["T %d 1 I %d %d" % (a, r2, rnd.randrange(1, 9000)), "S %d %d 0" % (c, a)]
            out.append(("cluster 3 %d %s 6" % (len(ops), " ".join(ops)), {"cluster", "nodes=3", "chunked-broadcast", "tail-overwritten-at-server"}))
        # the family the cluster theorem's no_tie hypothesis is about: two nodes delete the same row
        # before they hear of each other's delete, a third node is served each delete by the node
        # where it lost (sync mode 2: only relayed versions arrive)
        K = 4 if tier == "quick" else 60
        for _ in range(K):
            row = rnd.randrange(1, 4)
            a, b = rnd.sample([0, 1, 2], 2)
            c = 3 - a - b
            pre = ["T %d 1 I %d %d" % (a, row, rnd.randrange(1, 9000)), "B %d %d 0" % (a, b), "B %d %d 0" % (a, c)]
            if rnd.random() < 0.5:
                pre += ["T %d 1 U %d %d" % (b, row, rnd.randrange(1, 9000)), "B %d %d 0" % (b, a), "B %d %d 0" % (b, c)]
            dels = ["T %d 1 X %d 0" % (a, row), "T %d 1 X %d 0" % (b, row), "B %d %d 0" % (a, b), "B %d %d 0" % (b, a)]
            tail = rnd.choice([["S %d %d 2" % (c, a), "S %d %d 2" % (c, b)],
                               ["S %d %d 2" % (c, b), "S %d %d 2" % (c, a)],
                               ["S %d %d 0" % (c, a)],
                               ["S %d %d 1" % (c, a), "S %d %d 1" % (c, b)]])
            ops = pre + dels + tail
            out.append(("cluster 3 %d %s 6" % (len(ops), " ".join(ops)), {"cluster", "nodes=3", "concurrent-writers", "concurrent-deletes"}))
        return out

    def model_lines(self, case, impl_obs):
        if impl_obs.startswith(("ERR", "PANIC", "CRASH")) or case.startswith("cluster"):
            return []
        steps = impl_obs.split(" # ")
        m = re.match(r"siteorder=(\S+)", steps[0])
        order = [int(x) for x in m.group(1).split("<")]      # names in increasing byte order
        rank = {name: i for i, name in enumerate(order)}
        ns = int(case.split()[1])
        t = ["crdtm", str(ns)] + [str(x) for x in order]
        ops = []
        for st in steps[1:]:
            st = st.strip()
            if st.startswith("W"):
                mm = re.match(r"W(\d+) recs=(\S*) ", st)
                recs = [x for x in mm.group(2).split(",") if x]
                ops.append(["W", mm.group(1), str(len(recs))] + [y for r in recs for y in rec_tokens(r, rank)])
            elif " skip " in st:
                ops.append(["S", re.match(r"G(\d+)", st).group(1)])
            else:
                mm = re.match(r"G(\d+) \w+ rec=(\S+) ", st)
                ops.append(["G", mm.group(1)] + rec_tokens(mm.group(2), rank))
        t.append(str(len(ops)))
        for o in ops:
            t += o
        return [" ".join(t)]

    def oracle_lines(self, case, impl_obs):
        """the order-free specification (row_spec, extracted from Coq) judged on what the real
        extension shows: per site, all records it produced or merged vs the rows of its last dump"""
        if case.startswith("cluster") and not impl_obs.startswith(("ERR", "PANIC", "CRASH")):
            return self.cluster_oracle(case, impl_obs)
        if not case.startswith("crdtsim") or impl_obs.startswith(("ERR", "PANIC", "CRASH")):
            return []
        steps = impl_obs.split(" # ")
        m = re.match(r"siteorder=(\S+)", steps[0])
        order = [int(x) for x in m.group(1).split("<")]
        rank = {name: i for i, name in enumerate(order)}
        ns = int(case.split()[1])
        recs = [[] for _ in range(ns)]
        last = [None] * ns
        for st in steps[1:]:
            st = st.strip()
            mm = re.match(r"([WG])(\d+) ", st)
            if not mm:
                return []
            site = int(mm.group(2))
            if mm.group(1) == "W":
                rr = re.match(r"W\d+ recs=(\S*) ", st).group(1)
                recs[site] += [x for x in rr.split(",") if x]
            elif " skip " not in st:
                recs[site].append(re.match(r"G\d+ \w+ rec=(\S+) ", st).group(1))
            md = re.search(r"clk=(\S*) tbl=", st)
            if md:
                last[site] = md.group(1)
        t = ["chk_spec", str(ns)]
        for s_ in range(ns):
            t.append(str(len(recs[s_])))
            for r in recs[s_]:
                t += rec_tokens(r, rank)
            rows = {}
            for e in [x for x in (last[s_] or "").split(",") if x]:
                row, c, v, colv, cl, _site, _dbv, _seq = rec_tokens(e, rank)
                ent = rows.setdefault(row, {"cl": cl, "col": None})
                ent["cl"] = str(max(int(ent["cl"]), int(cl)))
                if c == "T":
                    ent["col"] = (v, colv)
            t.append(str(len(rows)))
            for row, ent in sorted(rows.items(), key=lambda kv: int(kv[0])):
                t += [row, ent["cl"], "1" if ent["col"] else "0", ent["col"][0] if ent["col"] else "0", ent["col"][1] if ent["col"] else "0"]
        return [" ".join(t)]

    def cluster_oracle(self, case, impl_obs):
        """the conclusion of the cluster theorem judged on the real agents: at quiescence (every node
        advertises the same heads, needs nothing, holds no partial) every node's table must be
        table (merge_all [] U), U = the records of all acknowledged transactions as their origins
        broadcast them -- whenever U is inside the theorem's hypotheses (wf, no_tie, clk_unique)"""
        steps = impl_obs.split(" # ")
        mr = re.search(r" recs=(\S*)", steps[0])
        if not mr or " panics=" in steps[0]:
            return []
        nodes = []
        for st in steps[1:]:
            mm = re.match(self.NODE, st.strip())
            if not mm:
                return []
            nodes.append(mm.groups())
        if any(n[2] != nodes[0][2] or n[3] != "0" or n[4] != "0" for n in nodes):
            return []                      # not quiescent: judged by impl_verdict
        recs = [x for x in mr.group(1).split(",") if x]
        ident = {i: i for i in range(10)}
        t = ["chk_cluster", str(len(recs))]
        for r in recs:
            try:
                t += rec_tokens(r, ident)
            except Exception:
                return []                  # a value outside the model's domain (not a 4-digit text)
        t.append(str(len(nodes)))
        for n in nodes:
            cells = [c for c in n[0].split(",") if c]
            t.append(str(len(cells)))
            for c in cells:
                row, val = c.split("=", 1)
                t += [row, str(int(val)) if val.isdigit() else "-1"]
        return [" ".join(t)]

    NODE = r"tbl=(\S*) clk=(\S*) heads=(\S*) need=(\d+) pneed=(\d+)(?: dup=(\S*))?"

    def classify(self, case, impl_obs):
        """resurrect-duplicate-seq: the nodes differ ONLY in rows for which some node stores two
        records under one (site_id, db_version, seq) -- the relay then serves only the first"""
        if not case.startswith("cluster") or impl_obs.startswith(("ERR", "PANIC", "CRASH")):
            return None
        steps = impl_obs.split(" # ")
        nodes = []
        for st in steps[1:]:
            mm = re.match(self.NODE, st.strip())
            if not mm:
                return None
            nodes.append(mm.groups())
        dup = set()
        for n in nodes:
            dup |= {x for x in (n[5] or "").split(",") if x}
        if not dup:
            return self.classify_concurrent_deletes(case, steps, nodes)
        # second manifestation (debug builds): the duplicate is not at last_seq, the relay sends
        # both records and the receiver's process_complete_version fails its `len <= seqs`
        # assertion -- recognised by the call site of the panic, with a duplicate present
        pm = re.search(r" panics=(\S+)", steps[0])
        if pm:
            if set(pm.group(1).split(",")) == {"complete-version-len>seqs"}:
                return "resurrect-duplicate-seq"
            return None
        def strip(n):
            tbl = [c for c in n[0].split(",") if c and c.split("=")[0] not in dup]
            clk = [c for c in n[1].split(",") if c and c.split("/")[0] not in dup]
            return (tbl, clk, n[2], n[3], n[4])
        full = [n[:5] for n in nodes]
        if all(f == full[0] for f in full):
            return None                      # converged: whatever failed is something else
        st0 = strip(nodes[0])
        if any(strip(n) != st0 for n in nodes) or st0[3] != "0" or st0[4] != "0":
            return None
        return "resurrect-duplicate-seq"

    def classify_concurrent_deletes(self, case, steps, nodes):
        """concurrent-deletes (the class Model/Cluster.v's no_tie excludes): the nodes differ ONLY in rows
        that two different nodes deleted in the script, and there only like this: some nodes show the
        row deleted at an even causal length M, the others still show it at M-1; nothing is needed,
        nothing is partial, heads agree, nobody panicked"""
        if " panics=" in steps[0]:
            return None
        deleters = {}
        for mm in re.finditer(r" T (\d+) (\d+)((?: [IUX] \d+ \d+)+)", " " + case):
            for st in re.finditer(r"X (\d+) \d+", mm.group(3)):
                deleters.setdefault(st.group(1), set()).add(mm.group(1))
        both = {row for row, ns in deleters.items() if len(ns) >= 2}
        if not both:
            return None
        full = [n[:5] for n in nodes]
        if all(f == full[0] for f in full):
            return None
        def strip(n):
            tbl = [c for c in n[0].split(",") if c and c.split("=")[0] not in both]
            clk = [c for c in n[1].split(",") if c and c.split("/")[0] not in both]
            return (tbl, clk, n[2], n[3], n[4])
        st0 = strip(nodes[0])
        if any(strip(n) != st0 for n in nodes) or st0[3] != "0" or st0[4] != "0":
            return None
        for row in both:
            cls = set()
            for n in nodes:
                cl = [int(c.split(":")[3]) for c in n[1].split(",") if c and c.split("/")[0] == row]
                cls.add(max(cl) if cl else 0)
            if len(cls) == 1:
                continue
            hi = max(cls)
            if hi % 2 != 0 or cls != {hi, hi - 1}:
                return None
        return "concurrent-deletes"

    def impl_verdict(self, case, impl_obs):
        if impl_obs.startswith(("ERR", "PANIC", "CRASH")):
            return False
        if not case.startswith("cluster"):
            return None
        steps = impl_obs.split(" # ")
        m = re.match(r"acked=(\d+) rounds=(\d+)", steps[0].strip())
        if not m:
            return False
        if " panics=" in steps[0]:
            return False               # a node panicked while applying a batch
        nodes = []
        for st in steps[1:]:
            mm = re.match(self.NODE, st.strip())
            if not mm:
                return False
            nodes.append(mm.groups()[:5])
        # convergence: identical tables, identical per-cell versions, same heads, nothing needed
        if any(n[:3] != nodes[0][:3] for n in nodes):
            return False
        if any(n[3] != "0" or n[4] != "0" for n in nodes):
            return False
        # quiescence within the round budget (the last round must have asked for nothing)
        if int(m.group(2)) >= int(case.split()[-1]):
            return False
        # no value from nowhere: every visible value was written by some transaction of the script
        written = set("%04d" % int(v) for v in re.findall(r"[IU] \d+ (\d+)", case))
        for cell in [c for c in nodes[0][0].split(",") if c]:
            val = cell.split("=")[1]
            if val not in written:
                return False
        return None

    def agree(self, case, impl_obs, model_obs):
        if impl_obs.startswith(("ERR", "PANIC", "CRASH")):
            return False
        if case.startswith("cluster"):
            return True                # judged by impl_verdict (no step-exact model of the cluster)
        isteps = [re.sub(r"^.*?(clk=)", r"\1", s.strip()) for s in impl_obs.split(" # ")[1:]]
        msteps = [s.strip() for s in model_obs.split(" # ")]
        return isteps == msteps

    def nontrivial(self, case, model_obs):
        return len(set(re.findall(r" T (\d)", case))) >= 2 or case.startswith("crdtsim")


SPEC = C01
