//! C06: crash points. After every operation (= after every commit) the database
//! files are copied -- what a kill -9 at that point leaves behind -- and the copy
//! is opened like a restart does: BookedVersions::from_conn for the node's own
//! actor and the foreign actor, plus the durable data. Optionally a real agent is
//! started on the last copy.
use crate::{agentkit, c02, c04::actor_of, util::Toks};
use klukai_agent::{
    agent::{process_multiple_changes, start_with_config, util::{clear_buffered_meta_loop, process_fully_buffered_changes}},
    api::public::{api_v1_transactions, TimeoutParams},
};
use klukai_types::{
    actor::ActorId,
    agent::{Bookie, BookedVersions},
    api::Statement,
    base::CrsqlDbVersion,
    broadcast::ChangeSource,
    channel::bounded,
    config::Config,
    sqlite::{setup_conn, CrConn},
    tripwire::Tripwire,
};
use rusqlite::Connection;
use std::{path::Path, time::{Duration, Instant}};

fn snapshot(src_dir: &Path, dst: &Path) {
    std::fs::create_dir_all(dst).unwrap();
    for f in ["corrosion.db", "corrosion.db-wal"] {
        let s = src_dir.join(f);
        if s.exists() {
            std::fs::copy(&s, dst.join(f)).unwrap();
        }
    }
}

fn ids_of(conn: &Connection, lo: i64, hi: i64) -> String {
    conn.prepare("SELECT id FROM tests WHERE id >= ? AND id < ? ORDER BY id")
        .unwrap()
        .query_map([lo, hi], |r| r.get::<_, i64>(0))
        .unwrap()
        .map(|x| x.unwrap().to_string())
        .collect::<Vec<_>>()
        .join(",")
}

fn analyse(dir: &Path, own: ActorId, other: ActorId) -> String {
    let conn = CrConn::init(Connection::open(dir.join("corrosion.db")).unwrap()).unwrap();
    setup_conn(&conn).unwrap();
    let own_bv = BookedVersions::from_conn(&conn, own).unwrap();
    let bv = BookedVersions::from_conn(&conn, other).unwrap();
    let buf: Vec<String> = conn
        .prepare("SELECT db_version, seq FROM __corro_buffered_changes WHERE site_id = ? ORDER BY db_version, seq")
        .unwrap()
        .query_map([other], |r| Ok(format!("{}:{}", r.get::<_, i64>(0)?, r.get::<_, i64>(1)?)))
        .unwrap()
        .map(|x| x.unwrap())
        .collect();
    format!(
        "own[{}] a5[{}] d={} g={} s={} own_rows={} a5_rows={} buf={}",
        c02::fmt_bv(&own_bv),
        c02::fmt_bv(&bv),
        c02::dump_dbmax(&conn, other),
        c02::dump_gap_rows(&conn, other),
        c02::dump_seq_rows(&conn, other),
        ids_of(&conn, 1, 1000),
        ids_of(&conn, 1000, 1_000_000),
        buf.join(",")
    )
}

/// case: crash <nops> { L k {id}*k | LF | W v k {rowid}*k | D v s e last k {seq}*k | E lo hi | A v | C | O v s e last k {seq}*k } <restart 0/1>
///   (O: a partial chunk of version v of a SECOND remote actor)
pub fn crash(t: &mut Toks) -> String {
    let rt = tokio::runtime::Builder::new_multi_thread().worker_threads(3).enable_all().build().unwrap();
    enum Op {
        L(Vec<i64>),
        LF,
        W(u64, Vec<u64>),
        D(u64, u64, u64, u64, Vec<u64>),
        E(u64, u64),
        A(u64),
        C,
        O(u64, u64, u64, u64, Vec<u64>),
    }
    let nops = t.usize();
    let mut ops = vec![];
    for _ in 0..nops {
        ops.push(match t.tok() {
            "L" => {
                let k = t.usize();
                Op::L((0..k).map(|_| t.i64()).collect())
            }
            "LF" => Op::LF,
            "W" => {
                let v = t.u64();
                let k = t.usize();
                Op::W(v, (0..k).map(|_| t.u64()).collect())
            }
            "D" => {
                let v = t.u64();
                let s = t.u64();
                let e = t.u64();
                let last = t.u64();
                let k = t.usize();
                Op::D(v, s, e, last, (0..k).map(|_| t.u64()).collect())
            }
            "E" => Op::E(t.u64(), t.u64()),
            "A" => Op::A(t.u64()),
            "C" => Op::C,
            "O" => {
                let v = t.u64();
                let s = t.u64();
                let e = t.u64();
                let last = t.u64();
                let k = t.usize();
                Op::O(v, s, e, last, (0..k).map(|_| t.u64()).collect())
            }
            x => panic!("bad op {x}"),
        });
    }
    let restart = t.u64() == 1;
    rt.block_on(async move {
        let kit = agentkit::new_agent(|_| {}).await;
        let agent = kit.agent.clone();
        let bookie = Bookie::new(Default::default());
        let actor = actor_of(5);
        let tmo = Duration::from_secs(30);
        let mut rx_clear = kit.opts.rx_clear_buf;
        let (tx_my_clear, rx_my_clear) = bounded(64, "verif-clear");
        tokio::spawn(clear_buffered_meta_loop(agent.clone(), rx_my_clear));
        let snaps = tempfile::tempdir().unwrap();
        let mut outs = vec![];
        let mut n = 0;
        for op in ops {
            let mut ack = String::new();
            match op {
                Op::L(ids) => {
                    let stmts = ids
                        .iter()
                        .map(|id| Statement::Simple(format!("INSERT OR REPLACE INTO tests (id, text) VALUES ({id}, 'l{id}')")))
                        .collect();
                    let (st, body) = api_v1_transactions(axum::Extension(agent.clone()), axum::extract::Query(TimeoutParams { timeout: None }), axum::extract::Json(stmts)).await;
                    ack = format!("ack={}:{}", if st.is_success() { 1 } else { 0 }, body.0.version.map(|v| v.to_string()).unwrap_or("-".into()));
                }
                Op::LF => {
                    let stmts = vec![
                        Statement::Simple("INSERT OR REPLACE INTO tests (id, text) VALUES (999, 'never')".into()),
                        Statement::Simple("INSERT INTO tests VALUES (".into()),
                    ];
                    let (st, body) = api_v1_transactions(axum::Extension(agent.clone()), axum::extract::Query(TimeoutParams { timeout: None }), axum::extract::Json(stmts)).await;
                    ack = format!("ack={}:{}", if st.is_success() { 1 } else { 0 }, body.0.version.map(|v| v.to_string()).unwrap_or("-".into()));
                }
                Op::W(v, ids) => {
                    let k = ids.len() as u64;
                    let changes = ids.iter().enumerate().map(|(i, id)| agentkit::mk_change(actor, v, i as u64, (v * 1000 + id) as i64, "x", 1, 1)).collect();
                    let c = agentkit::full(actor, v, changes, 0, k.saturating_sub(1), k.saturating_sub(1), 1);
                    let _ = process_multiple_changes(agent.clone(), bookie.clone(), vec![(c, ChangeSource::Sync, Instant::now())], tmo).await;
                }
                Op::D(v, s, e, last, seqs) => {
                    let changes = seqs.iter().map(|q| agentkit::mk_change(actor, v, *q, (v * 1000 + 100 + q) as i64, "x", 1, 1)).collect();
                    let c = agentkit::full(actor, v, changes, s, e, last, 1);
                    let _ = process_multiple_changes(agent.clone(), bookie.clone(), vec![(c, ChangeSource::Sync, Instant::now())], tmo).await;
                }
                Op::E(lo, hi) => {
                    let c = agentkit::empty(actor, lo, hi, 1);
                    let _ = process_multiple_changes(agent.clone(), bookie.clone(), vec![(c, ChangeSource::Sync, Instant::now())], tmo).await;
                }
                Op::A(v) => {
                    let _ = process_fully_buffered_changes(&agent, &bookie, actor, CrsqlDbVersion(v), tmo).await;
                }
                Op::O(v, s, e, last, seqs) => {
                    // a partial chunk of ANOTHER actor's version with the same number
                    let other = actor_of(6);
                    let changes = seqs.iter().map(|q| agentkit::mk_change(other, v, *q, (2_000_000 + v * 1000 + q) as i64, "o", 1, 1)).collect();
                    let c = agentkit::full(other, v, changes, s, e, last, 1);
                    let _ = process_multiple_changes(agent.clone(), bookie.clone(), vec![(c, ChangeSource::Sync, Instant::now())], tmo).await;
                }
                Op::C => {
                    while let Ok(req) = rx_clear.try_recv() {
                        tx_my_clear.send(req).await.unwrap();
                    }
                    tokio::time::sleep(Duration::from_millis(60)).await;
                    let c = agent.pool().write_low().await.unwrap();
                    drop(c);
                }
            }
            // the crash point: whatever is on disk now
            let dst = snaps.path().join(format!("s{n}"));
            snapshot(kit.dir.path(), &dst);
            n += 1;
            let a = tokio::task::block_in_place(|| analyse(&dst, agent.actor_id(), actor));
            // what the live node advertises about the remote actor at this instant
            let live = {
                let b = { bookie.read::<&str, _>("verif", None).await.get(&actor).cloned() };
                match b {
                    Some(b) => c02::fmt_bv(&*b.read::<&str, _>("verif", None).await),
                    None => "-".to_string(),
                }
            };
            // the other actor: what a restart would rebuild for it vs what the live node holds
            let other = actor_of(6);
            let reload6 = tokio::task::block_in_place(|| {
                let conn = CrConn::init(Connection::open(dst.join("corrosion.db")).unwrap()).unwrap();
                setup_conn(&conn).unwrap();
                c02::fmt_bv(&BookedVersions::from_conn(&conn, other).unwrap())
            });
            let live6 = {
                let b = { bookie.read::<&str, _>("verif", None).await.get(&other).cloned() };
                match b {
                    Some(b) => c02::fmt_bv(&*b.read::<&str, _>("verif", None).await),
                    None => "-".to_string(),
                }
            };
            outs.push(format!("{} live5[{}] {} a6[{}] live6[{}]", a, live, ack, reload6, live6).replace("  ", " ").trim().to_string());
        }
        if restart && n > 0 {
            // a real agent on the files of the last crash point
            let dst = snaps.path().join(format!("s{}", n - 1));
            let (tw, w, _tx) = Tripwire::new_simple();
            std::mem::forget(w);
            let conf = Config::builder()
                .db_path(dst.join("corrosion.db").display().to_string())
                .gossip_addr("127.0.0.1:0".parse().unwrap())
                .api_addr("127.0.0.1:0".parse().unwrap())
                .admin_path(dst.join("admin.sock").display().to_string())
                .build()
                .unwrap();
            match start_with_config(conf, tw).await {
                Ok((agent2, bookie2, _, _)) => {
                    tokio::time::sleep(Duration::from_millis(1500)).await;
                    let conn = agent2.pool().read().await.unwrap();
                    let rows = ids_of(&conn, 1000, 1_000_000);
                    let own_rows = ids_of(&conn, 1, 1000);
                    let b = { bookie2.read::<&str, _>("verif", None).await.get(&actor).cloned() };
                    let bvs = match b {
                        Some(b) => c02::fmt_bv(&*b.read::<&str, _>("verif", None).await),
                        None => "-".into(),
                    };
                    outs.push(format!("RESTART own_rows={} a5_rows={} a5[{}] same_actor={}", own_rows, rows, bvs, if agent2.actor_id() == agent.actor_id() { 1 } else { 0 }));
                }
                Err(e) => outs.push(format!("RESTART failed {e}")),
            }
        }
        outs.join(" # ")
    })
}
