#!/usr/bin/env python3
"""locks2coq: regenerate coq/Gen/RestoreLocks.v from /repo's sqlite3_restore.rs: the byte-range
locks `lock_all` takes, in order, for the journal-mode probe, for a rollback-journal destination
and for a WAL destination (constants resolved; `for x in A..B` / `A..=B` loops over a lock call
are expanded with Rust's range semantics).  Fail closed: any `lock(` call or loop in lock_all
that is not understood makes the translator fail."""
import re, sys, os
REPO = os.environ.get("VERIF_REPO", "/repo")

CALL = re.compile(r"lock\(\s*&?\w+\s*,\s*LockType::(Read|Write|Unlock)\s*,\s*(\w+)\s*,\s*timeout\s*\)\?;")
LOOP = re.compile(r"for\s+(\w+)\s+in\s+(\w+)\s*\.\.(=?)\s*(\w+)\s*\{\s*lock\(\s*&?\w+\s*,\s*LockType::(Read|Write|Unlock)\s*,\s*(\w+)\s*,\s*timeout\s*\)\?;\s*\}")


def seq_of(segment, consts):
    """-> list of (kind, byte) in program order"""
    items = []
    pos = 0
    covered = 0
    evs = []
    for m in LOOP.finditer(segment):
        evs.append((m.start(), m.end(), "loop", m))
    spans = [(a, b) for a, b, _, _ in evs]
    for m in CALL.finditer(segment):
        if any(a <= m.start() < b for a, b in spans):
            continue
        evs.append((m.start(), m.end(), "call", m))
    evs.sort()
    for a, b, kind, m in evs:
        if kind == "call":
            if m.group(2) not in consts:
                raise ValueError("unknown lock byte %s" % m.group(2))
            items.append((m.group(1), consts[m.group(2)]))
        else:
            var, lo, incl, hi, k, arg = m.groups()
            if arg != var or lo not in consts or hi not in consts:
                raise ValueError("loop not understood: %s" % m.group(0))
            top = consts[hi] + (1 if incl else 0)
            for v in range(consts[lo], top):
                items.append((k, v))
    # every `lock(` of the segment must have been understood
    n_calls = len(re.findall(r"\block\(", segment))
    n_seen = sum(1 for e in evs)
    if n_calls != n_seen:
        raise ValueError("lock_all: %d lock( calls, %d understood" % (n_calls, n_seen))
    if re.search(r"\b(while|loop)\b", segment) or len(re.findall(r"\bfor\b", segment)) != sum(1 for e in evs if e[2] == "loop"):
        raise ValueError("lock_all: a loop that is not a simple range over one lock call")
    return items


def main(out):
    try:
        s = open(os.path.join(REPO, "crates/klukai-types/src/sqlite3_restore.rs"), encoding="utf-8").read()
        consts = {}
        for m in re.finditer(r"^const\s+(\w+)\s*:\s*i64\s*=\s*(0x[0-9a-fA-F]+|\d+)\s*;", s, re.M):
            consts[m.group(1)] = int(m.group(2), 0)
        m = re.search(r"pub fn lock_all[^(]*\((.*?)\n\}\n", s, re.S)
        if not m:
            raise ValueError("lock_all not found")
        body = m.group(1)
        m2 = re.search(r"^(.*?)if\s+!is_wal\s*\{(.*?)return\s+Ok\(Locked::Other\);\s*\}(.*)$", body, re.S)
        if not m2:
            raise ValueError("lock_all: the `if !is_wal { ... return Ok(Locked::Other); }` shape was not found")
        probe, rollback, wal = (seq_of(x, consts) for x in m2.groups())
        if "Ok(Locked::Wal(shm_file))" not in m2.group(3):
            raise ValueError("lock_all: WAL branch does not end in Ok(Locked::Wal(shm_file))")
        # which file each WAL lock goes to is part of the shape: all on the -shm file
        if re.search(r"lock\(\s*db_file", m2.group(3)):
            raise ValueError("lock_all: a WAL-branch lock on the database file")
        # restore(): apart from the "destination is empty" shortcut, nothing of the destination is
        # touched before lock_all returned, and the lock holder (dst_locked / the files) lives
        # until the function returns
        mr = re.search(r"pub fn restore[^(]*\((.*?)\n\}\n", s, re.S)
        if not mr:
            raise ValueError("restore not found")
        rb = mr.group(1)
        me = re.search(r"if\s+dst_meta\.len\(\)\s*==\s*0\s*\{.*?return\s+Ok\(Restored\s*\{.*?\}\);\s*\}", rb, re.S)
        if not me:
            raise ValueError("restore: the empty-destination shortcut was not found")
        rest = rb[me.end():]
        pl = rest.find("lock_all(")
        if pl < 0:
            raise ValueError("restore: lock_all is not called after the empty-destination shortcut")
        for frag in ["remove_file(", ".truncate(true)", "copy_check(", "write_at(", ".seek("]:
            pf = rest.find(frag)
            if pf >= 0 and pf < pl:
                raise ValueError("restore: %s before lock_all" % frag)
        if "copy_check(" not in rest[pl:]:
            raise ValueError("restore: no copy after lock_all")
        if re.search(r"drop\(\s*dst_locked|drop\(\s*dst_db_file|LockType::Unlock", rest):
            raise ValueError("restore: a lock is released before the function returns")
        if not re.search(r"let\s+mut\s+dst_locked\s*=\s*lock_all\(&mut dst_db_file,", rest):
            raise ValueError("restore: the result of lock_all is not kept in dst_locked")
        # the SHARED range: lock() widens l_len to 510 for SHARED
        if not re.search(r"if\s+l_start\s*==\s*SHARED\s*\{\s*l_len\s*=\s*510;\s*\}", s):
            raise ValueError("lock(): the SHARED range (510 bytes) rule was not found")
    except Exception as e:
        sys.stderr.write("locks2coq: %s\n" % e)
        return 2

    def lst(items):
        return "[" + "; ".join("(Lk%s, %d)" % (k, v) for k, v in items) + "]"
    txt = "\n".join([
        "(* GENERATED by tools/locks2coq.py from %s/crates/klukai-types/src/sqlite3_restore.rs -- do not edit *)" % REPO,
        "From Coq Require Import List ZArith.",
        "From Corro Require Import Model.RestoreLock.",
        "Import ListNotations.",
        "Open Scope Z_scope.",
        "(* lock_all, in program order: (kind, lock byte) *)",
        "Definition lock_all_probe : list (lk * Z) := %s." % lst(probe),
        "Definition lock_all_rollback : list (lk * Z) := %s." % lst(rollback),
        "Definition lock_all_wal : list (lk * Z) := %s." % lst(wal),
        "(* restore(): checked by the translator -- lock_all precedes every access to a non-empty",
        "   destination and its locks are held until restore returns *)",
        "Definition restore_locks_first : bool := true.", ""])
    os.makedirs(os.path.dirname(out), exist_ok=True)
    old = open(out).read() if os.path.exists(out) else None
    if old != txt:
        open(out, "w").write(txt)
    return 0


if __name__ == "__main__":
    sys.exit(main(sys.argv[1] if len(sys.argv) > 1 else os.path.join(os.path.dirname(os.path.dirname(os.path.abspath(__file__))), "coq", "Gen", "RestoreLocks.v")))
