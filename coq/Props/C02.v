(* C02 — Advertised sync state is an exact, durable summary of what a node holds.
   Statements only; proofs in Proofs/BookProofs.v; model in Model/Book.v,
   Model/SeqRows.v, Model/BookOps.v (transcriptions of agent.rs / sync.rs / util.rs). *)
From Coq Require Import List ZArith Bool Lia.
From Corro Require Import Lib.Ivl Model.Book Model.SeqRows Model.BookOps Gen.Consts Proofs.BookProofs.
Import ListNotations.
Open Scope Z_scope.

(* (1) One insertion of ANY set of version ranges (overlapping existing gaps,
   adjacent to them, repeated, beyond the head, ...) from ANY state satisfying
   the invariant: never fails on the primary key, every DELETE removes exactly
   one row, the persisted gap rows stay LITERALLY equal to the in-memory
   needed set (hence pairwise disjoint, non-adjacent, inside 1..head-1), and
   the new needed set is (needed ∪ the gap opened beyond the old head) minus
   the inserted versions; partial entries are only ever dropped, not invented. *)
Theorem C02_insert_db_exact : forall b rs vs, Inv b rs -> wf_vs vs ->
  exists b',
    insert_db b rs vs = IdbOk b' (needed b') false /\
    Inv b' (needed b') /\
    (forall x, mem x (needed b') <->
               (mem x (needed b) \/ exists v, In v vs /\ gapx b x v) /\ ~ mem x vs) /\
    max0 (maxv b) <= max0 (maxv b') /\
    (forall v, In v vs -> snd v <= max0 (maxv b')) /\
    (forall v p, aget v (partials b') = Some p -> aget v (partials b) = Some p) /\
    (forall z, max0 (maxv b) <= z -> (forall v, In v vs -> snd v <= z) -> max0 (maxv b') <= z).
Proof. exact insert_db_ok. Qed.
Print Assumptions C02_insert_db_exact.

(* (2) Every reachable state: any sequence of range-set insertions and
   partial-chunk insertions from the empty bookkeeping keeps the invariant and
   never reports a failed INSERT or an ineffective DELETE. *)
Theorem C02_reachable_invariant : forall ops,
  Forall op_ok ops ->
  Forall (fun r => Inv (st_bv (fst r)) (st_rows (fst r)) /\ out_fine (snd r))
         (bruns bstate_init ops).
Proof. intros ops H. apply bruns_inv; [exact Inv_init|exact H]. Qed.
Check C02_reachable_invariant : forall ops,
  Forall (fun op => match op with
                    | OpInsert raw => Forall (fun r => 1 <= fst r <= snd r) raw
                    | OpPartial v s e last => 1 <= v /\ 0 <= s <= e
                    | OpReload => False end) ops ->
  Forall (fun r => Inv (st_bv (fst r)) (st_rows (fst r)) /\
                   match snd r with OutIdbErr | OutBadDelete => False | _ => True end)
         (bruns bstate_init ops).
Print Assumptions C02_reachable_invariant.

(* (3) What generate_sync advertises for an actor is the exact partition of
   1..head: a version is advertised needed / partial / held / beyond exactly
   when it is, and for a partial the advertised missing seqs are exactly the
   gaps of 0..=last_seq.  The side condition on the source's full_range() is
   discharged against Gen/Consts.v, regenerated from agent.rs on every run. *)
Theorem C02_advertised_partition : forall b rs v, Inv b rs -> 1 <= v ->
  adv_class (sync_actor b) v = classify b v /\
  (classify b v = PartialC ->
   exists p, aget v (partials b) = Some p /\
     exists a, sync_actor b = Some a /\
       aget v (a_partial a) = Some (gaps 0 (p_last p) (p_seqs p))).
Proof. intros b rs v. apply adv_exact. vm_compute. reflexivity. Qed.
Print Assumptions C02_advertised_partition.

(* the classes are what the property says they are *)
Theorem C02_classes_meaning : forall b v,
  (classify b v = Needed <-> mem v (needed b)) /\
  (classify b v = Held -> contains_version b v = true) /\
  (classify b v = PartialC -> contains_version b v = true /\
                              exists p, aget v (partials b) = Some p /\ fully_buffered p = false) /\
  (classify b v = Beyond -> max0 (maxv b) < v).
Proof.
  intros b v. unfold classify, contains_version.
  destruct (memb v (needed b)) eqn:E.
  - apply memb_iff in E. repeat split; auto; discriminate.
  - assert (~ mem v (needed b)) by (intros H; apply memb_iff in H; congruence).
    destruct (v <=? max0 (maxv b)) eqn:E2; cbn [negb].
    + destruct (aget v (partials b)) as [p|]; [destruct (fully_buffered p) eqn:Ef|];
        repeat split; try discriminate; try tauto; try reflexivity.
      exists p. split; reflexivity || assumption.
    + apply Z.leb_gt in E2. repeat split; try discriminate; try tauto; intros; lia.
Qed.
Print Assumptions C02_classes_meaning.

(* (4) the decidable oracle evaluated on implementation states implies the invariant *)
Theorem C02_oracle_sound : forall b rs, inv_b b rs = true -> Inv b rs.
Proof. exact inv_b_sound. Qed.
Print Assumptions C02_oracle_sound.

(* non-vacuity: a reachable state with gaps and a partial; and a set insertion
   that overlaps, touches and extends *)
Example C02_nonvacuous :
  let ops := [OpInsert [(3, 4)]; OpPartial 6 1 5 5; OpInsert [(1, 1); (8, 8)]] in
  Forall op_ok ops /\
  map (fun r => (needed (st_bv (fst r)), st_rows (fst r))) (bruns bstate_init ops) =
    [([(1, 2)], [(1, 2)]); ([(1, 2); (5, 5)], [(1, 2); (5, 5)]);
     ([(2, 2); (5, 5); (7, 7)], [(2, 2); (5, 5); (7, 7)])].
Proof.
  split; [repeat constructor; cbn; lia|vm_compute; reflexivity].
Qed.
