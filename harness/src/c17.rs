//! C17: the real HTTP API (router + middleware) on a live listener.
use crate::{agentkit, util::Toks};
use klukai_agent::agent::util::setup_http_api_handler;
use klukai_types::config::AuthzConfig;
use std::time::Duration;
use tokio::io::{AsyncReadExt, AsyncWriteExt};

pub const TOKEN: &str = "s3cr3t-Tok3n";

/// (method, path, body)
fn route(i: usize) -> (&'static str, String, String) {
    match i {
        0 => ("POST", "/v1/transactions".into(), r#"["INSERT INTO tests (id, text) VALUES (9001, 'authz')"]"#.into()),
        1 => ("POST", "/v1/queries".into(), r#""SELECT 1""#.into()),
        2 => ("POST", "/v1/subscriptions".into(), r#""SELECT id FROM tests""#.into()),
        3 => ("POST", "/v1/updates/tests".into(), "".into()),
        4 => ("GET", "/v1/subscriptions/00000000-0000-0000-0000-000000000000".into(), "".into()),
        5 => ("POST", "/v1/migrations".into(), r#"["CREATE TABLE authz_t (id INTEGER NOT NULL PRIMARY KEY);"]"#.into()),
        6 => ("POST", "/v1/table_stats".into(), r#"{"tables":["tests"]}"#.into()),
        7 => ("GET", "/v1/nonexistent".into(), "".into()),
        8 => ("GET", "/v1/transactions".into(), "".into()),
        9 => ("POST", "/".into(), "".into()),
        10 => ("DELETE", "/v1/migrations".into(), "".into()),
        _ => panic!("bad route"),
    }
}

fn headers(shape: usize) -> Vec<String> {
    let t = TOKEN;
    match shape {
        0 => vec![],
        1 => vec![format!("Authorization: Bearer {t}")],
        2 => vec![format!("Authorization: Bearer {t}x")],
        3 => vec![format!("Authorization: Bearer {}", &t[..t.len() - 1])],
        4 => vec![format!("Authorization: Basic {t}")],
        5 => vec![format!("Authorization: bearer {t}")],
        6 => vec![format!("Authorization: Bearer  {t}")],
        7 => vec![format!("Authorization: {t}")],
        8 => vec!["Authorization: Bearer".to_string()],
        9 => vec!["Authorization: Bearer wrongtoken".to_string()],
        10 => vec![format!("Authorization: Bearer {t} ")],
        11 => vec!["Authorization: Bearer wrongtoken".to_string(), format!("Authorization: Bearer {t}")],
        12 => vec![format!("X-Authorization: Bearer {t}")],
        13 => vec![format!("Authorization: Bearer {}", t.to_ascii_uppercase())],
        _ => panic!("bad header shape"),
    }
}

pub async fn http(addr: std::net::SocketAddr, method: &str, path: &str, hdrs: &[String], body: &str) -> (u16, String) {
    let mut s = match tokio::net::TcpStream::connect(addr).await {
        Ok(s) => s,
        Err(_) => return (0, String::new()),
    };
    let mut req = format!("{method} {path} HTTP/1.1\r\nHost: verif\r\nConnection: close\r\n");
    for h in hdrs {
        req.push_str(h);
        req.push_str("\r\n");
    }
    if !body.is_empty() || method == "POST" {
        req.push_str(&format!("Content-Type: application/json\r\nContent-Length: {}\r\n", body.len()));
    }
    req.push_str("\r\n");
    req.push_str(body);
    if s.write_all(req.as_bytes()).await.is_err() {
        return (0, String::new());
    }
    // status line + whatever arrives within a short time (streaming endpoints never close)
    let mut buf = vec![];
    let deadline = tokio::time::Instant::now() + Duration::from_millis(1500);
    loop {
        let mut chunk = [0u8; 4096];
        match tokio::time::timeout_at(deadline, s.read(&mut chunk)).await {
            Ok(Ok(0)) => break,
            Ok(Ok(n)) => {
                buf.extend_from_slice(&chunk[..n]);
                if buf.len() > 200_000 {
                    break;
                }
                // a complete non-streaming response: headers + content-length satisfied is hard to know; keep reading until close/timeout,
                // but stop early once the header block is in and the response is not chunked
                let txt = String::from_utf8_lossy(&buf);
                if let Some(p) = txt.find("\r\n\r\n") {
                    let head = txt[..p].to_ascii_lowercase();
                    if let Some(cl) = head.lines().find_map(|l| l.strip_prefix("content-length: ").map(|x| x.trim().parse::<usize>().unwrap_or(0))) {
                        if buf.len() >= p + 4 + cl {
                            break;
                        }
                    } else if !head.contains("transfer-encoding: chunked") {
                        // no body announced
                        if head.starts_with("http/1.1 4") || head.starts_with("http/1.1 5") {
                            break;
                        }
                    } else if txt.len() > p + 4 && buf.len() > p + 64 {
                        break;
                    }
                }
            }
            Ok(Err(_)) => break,
            Err(_) => break,
        }
    }
    let txt = String::from_utf8_lossy(&buf).to_string();
    let status = txt.split_whitespace().nth(1).and_then(|x| x.parse::<u16>().ok()).unwrap_or(0);
    (status, txt)
}

pub async fn digest(agent: &klukai_types::agent::Agent) -> String {
    let conn = agent.pool().read().await.unwrap();
    let mut parts = vec![];
    for sql in [
        "SELECT group_concat(id || '=' || text, ';') FROM (SELECT id, text FROM tests ORDER BY id)",
        "SELECT group_concat(id || '=' || text, ';') FROM (SELECT id, text FROM tests2 ORDER BY id)",
        "SELECT COUNT(*) || '/' || COALESCE(MAX(db_version), 0) FROM crsql_changes",
        "SELECT group_concat(name || ':' || COALESCE(sql, ''), '|') FROM (SELECT name, sql FROM sqlite_schema WHERE name NOT LIKE 'sqlite_%' ORDER BY name)",
        "SELECT group_concat(actor_id || ':' || start || '-' || end, ';') FROM (SELECT hex(actor_id) AS actor_id, start, end FROM __corro_bookkeeping_gaps ORDER BY 1, 2)",
        "SELECT COUNT(*) FROM __corro_seq_bookkeeping",
        "SELECT COUNT(*) FROM __corro_buffered_changes",
        "SELECT COUNT(*) FROM __corro_members",
        "SELECT group_concat(tbl_name || ':' || name, ';') FROM (SELECT tbl_name, name FROM __corro_schema ORDER BY 1, 2)",
    ] {
        let v: Option<String> = conn.query_row(sql, [], |r| r.get::<_, Option<rusqlite::types::Value>>(0)).ok().flatten().map(|v| match v {
            rusqlite::types::Value::Text(s) => s,
            rusqlite::types::Value::Integer(i) => i.to_string(),
            x => format!("{x:?}"),
        });
        parts.push(v.unwrap_or_default());
    }
    for p in ["user_version", "application_id", "journal_mode", "schema_version"] {
        let v: String = conn.query_row(&format!("PRAGMA {p}"), [], |r| r.get::<_, rusqlite::types::Value>(0)).map(|v| format!("{v:?}")).unwrap_or_default();
        parts.push(v);
    }
    let own = agent.booked().read::<&str, _>("verif", None).await;
    parts.push(format!("{:?}/{:?}", own.last(), own.needed()));
    format!("{:x}", md5_like(&parts.join("\u{1}")))
}

fn md5_like(s: &str) -> u64 {
    // FNV-1a, enough to compare states inside one run
    let mut h: u64 = 0xcbf29ce484222325;
    for b in s.as_bytes() {
        h ^= *b as u64;
        h = h.wrapping_mul(0x100000001b3);
    }
    h
}

pub struct Server {
    pub kit_agent: klukai_types::agent::Agent,
    pub addr: std::net::SocketAddr,
    pub _dir: tempfile::TempDir,
    pub _tw: tokio::sync::mpsc::Sender<()>,
}

pub async fn start(token: Option<&str>) -> Server {
    let tok = token.map(|t| t.to_string());
    let kit = agentkit::new_agent(move |c| {
        c.api.authorization = tok.clone().map(AuthzConfig::BearerToken);
    })
    .await;
    let agentkit::Kit { agent, opts, dir, tripwire, _tw_tx } = kit;
    let addr = opts.api_listeners[0].local_addr().unwrap();
    let _ = setup_http_api_handler(&agent, &tripwire, opts.subs_bcast_cache, opts.updates_bcast_cache, &opts.subs_manager, opts.api_listeners)
        .await
        .unwrap();
    Server { kit_agent: agent, addr, _dir: dir, _tw: _tw_tx }
}

/// case: authz <cfg 0|1> <n> { <route> <header shape> }
/// obs per request: <status>:<db/bookkeeping changed 0|1>
pub fn authz(t: &mut Toks) -> String {
    let rt = tokio::runtime::Builder::new_multi_thread().worker_threads(4).enable_all().build().unwrap();
    let cfg = t.u64() == 1;
    let n = t.usize();
    let reqs: Vec<(usize, usize)> = (0..n).map(|_| (t.usize(), t.usize())).collect();
    rt.block_on(async move {
        let srv = start(if cfg { Some(TOKEN) } else { None }).await;
        let mut outs = vec![];
        for (r, h) in reqs {
            let before = digest(&srv.kit_agent).await;
            let (m, p, b) = route(r);
            let (status, _) = http(srv.addr, m, &p, &headers(h), &b).await;
            tokio::time::sleep(Duration::from_millis(30)).await;
            let after = digest(&srv.kit_agent).await;
            outs.push(format!("{}:{}", status, if before == after { 0 } else { 1 }));
        }
        outs.join(" ")
    })
}

/// the statement corpus for the read endpoints
pub fn stmt(i: usize) -> &'static str {
    match i {
        0 => "SELECT id, text FROM tests",
        1 => "INSERT INTO tests (id, text) VALUES (7001, 'w')",
        2 => "UPDATE tests SET text = 'w' WHERE id = 1",
        3 => "DELETE FROM tests",
        4 => "CREATE TABLE ro_t (id INTEGER PRIMARY KEY)",
        5 => "DROP TABLE tests",
        6 => "PRAGMA user_version = 77",
        7 => "PRAGMA journal_mode = DELETE",
        8 => "PRAGMA writable_schema = 1",
        9 => "ATTACH DATABASE ':memory:' AS m",
        10 => "SELECT 1; DELETE FROM tests",
        11 => "WITH x AS (SELECT 1) INSERT INTO tests (id, text) SELECT 7002, 'cte' FROM x",
        12 => "WITH x AS (SELECT id FROM tests) DELETE FROM tests WHERE id IN (SELECT id FROM x)",
        13 => "SELECT crsql_as_crr('tests2')",
        14 => "SELECT crsql_begin_alter('tests')",
        15 => "VACUUM",
        16 => "REINDEX",
        17 => "BEGIN IMMEDIATE",
        18 => "INSERT INTO tests (id, text) VALUES (7003, 'r') RETURNING id",
        19 => "SELECT crsql_next_db_version()",
        20 => "CREATE INDEX ro_i ON tests (text)",
        21 => "ALTER TABLE tests ADD COLUMN ro_c INTEGER",
        22 => "REPLACE INTO tests (id, text) VALUES (1, 'rep')",
        23 => "SELECT * FROM tests WHERE id = (SELECT 1); UPDATE tests SET text = 'multi'",
        24 => "PRAGMA wal_checkpoint(TRUNCATE)",
        25 => "ANALYZE",
        26 => "DELETE FROM __corro_bookkeeping_gaps",
        27 => "INSERT INTO __corro_members (actor_id, address, foca_state) VALUES (x'00', 'a', 'b')",
        28 => "UPDATE crsql_site_id SET ordinal = 5",
        29 => "INSERT INTO crsql_changes (\"table\", pk, cid, val, col_version, db_version, seq, site_id, cl) VALUES ('tests', x'010901', 'text', 'z', 1, 1, 0, x'aabbccddaabbccddaabbccddaabbccdd', 1)",
        _ => panic!("bad stmt"),
    }
}

/// case: ro <n> { <endpoint 0=queries 1=subscriptions> <stmt index> }
/// obs per request: <status>:<changed 0|1>
pub fn ro(t: &mut Toks) -> String {
    let rt = tokio::runtime::Builder::new_multi_thread().worker_threads(4).enable_all().build().unwrap();
    let n = t.usize();
    let reqs: Vec<(usize, usize)> = (0..n).map(|_| (t.usize(), t.usize())).collect();
    rt.block_on(async move {
        let srv = start(Some(TOKEN)).await;
        // some data to protect
        let hdr = headers(1);
        let (s0, _) = http(srv.addr, "POST", "/v1/transactions", &hdr, r#"["INSERT INTO tests (id, text) VALUES (1, 'one')", "INSERT INTO tests (id, text) VALUES (2, 'two')", "INSERT INTO tests2 (id, text) VALUES (1, 'x')"]"#).await;
        tokio::time::sleep(Duration::from_millis(50)).await;
        let mut outs = vec![format!("seed={s0}")];
        for (ep, si) in reqs {
            let before = digest(&srv.kit_agent).await;
            let body = serde_json::to_string(stmt(si)).unwrap();
            let path = if ep == 0 { "/v1/queries" } else { "/v1/subscriptions" };
            let (status, _) = http(srv.addr, "POST", path, &hdr, &body).await;
            tokio::time::sleep(Duration::from_millis(30)).await;
            let after = digest(&srv.kit_agent).await;
            // the node must still be able to serve a plain read and a write afterwards
            let (rs, _) = http(srv.addr, "POST", "/v1/queries", &hdr, r#""SELECT COUNT(*) FROM tests""#).await;
            outs.push(format!("{}:{}:{}", status, if before == after { 0 } else { 1 }, rs));
        }
        outs.join(" ")
    })
}

/// debug: print the raw responses for one route and a list of header shapes
pub fn authzdbg(t: &mut Toks) -> String {
    let rt = tokio::runtime::Builder::new_multi_thread().worker_threads(4).enable_all().build().unwrap();
    let n = t.usize();
    let reqs: Vec<(usize, usize)> = (0..n).map(|_| (t.usize(), t.usize())).collect();
    rt.block_on(async move {
        let srv = start(Some(TOKEN)).await;
        let mut outs = vec![];
        for (r, h) in reqs {
            let (m, p, b) = route(r);
            let (_, txt) = http(srv.addr, m, &p, &headers(h), &b).await;
            outs.push(txt.replace("\r\n", " | "));
        }
        outs.join(" ## ")
    })
}
