//! C09: the real speedy codecs and pack/unpack_columns.
//!  - `c09-gen <seed> <n>`: generate protocol values, print
//!       wire <descid> <hex of write_to_vec> <value tree>
//!    (the value tree mirrors coq/Model/WireDescs.v)
//!  - line kinds: decode / pack / unpack / utf8
use crate::util::{Rng, Toks};
use klukai_types::{
    actor::{ActorId, ClusterId},
    api::{ColumnName, SqliteValue, TableName},
    base::{CrsqlDbVersion, CrsqlSeq},
    broadcast::{
        BiPayload, BiPayloadV1, BroadcastV1, ChangeV1, Changeset, Timestamp, UniPayload, UniPayloadV1,
    },
    change::Change,
    pubsub::{pack_columns, unpack_columns, UnpackError},
    sync::{SyncMessage, SyncMessageV1, SyncNeedV1, SyncRejectionV1, SyncStateV1, SyncTraceContextV1},
};
use speedy::{Readable, Writable};
use std::collections::HashMap;

pub enum V {
    N(i128),
    B(Vec<u8>),
    O(Option<Box<V>>),
    L(Vec<V>),
    P(Box<V>, Box<V>),
    T(usize, Box<V>),
    U,
}

pub fn hex(b: &[u8]) -> String {
    if b.is_empty() {
        return "-".into();
    }
    b.iter().map(|x| format!("{x:02x}")).collect()
}
pub fn unhex(s: &str) -> Vec<u8> {
    if s == "-" {
        return vec![];
    }
    (0..s.len() / 2).map(|i| u8::from_str_radix(&s[2 * i..2 * i + 2], 16).unwrap()).collect()
}

fn fmt_v(v: &V, out: &mut Vec<String>) {
    match v {
        V::N(n) => out.push(format!("N{n}")),
        V::B(b) => out.push(format!("B{}", hex(b))),
        V::O(None) => out.push("O0".into()),
        V::O(Some(x)) => {
            out.push("O1".into());
            fmt_v(x, out)
        }
        V::L(l) => {
            out.push(format!("L{}", l.len()));
            for x in l {
                fmt_v(x, out)
            }
        }
        V::P(a, b) => {
            out.push("P".into());
            fmt_v(a, out);
            fmt_v(b, out)
        }
        V::T(t, x) => {
            out.push(format!("T{t}"));
            fmt_v(x, out)
        }
        V::U => out.push("U".into()),
    }
}

fn st(mut vs: Vec<V>) -> V {
    match vs.len() {
        0 => V::U,
        1 => vs.pop().unwrap(),
        _ => {
            let first = vs.remove(0);
            V::P(Box::new(first), Box::new(st(vs)))
        }
    }
}
fn t(tag: usize, v: V) -> V {
    V::T(tag, Box::new(v))
}
fn n<T: Into<i128>>(x: T) -> V {
    V::N(x.into())
}

// ---------------------------------------------------------------- generators
fn g_u64(r: &mut Rng) -> u64 {
    match r.below(6) {
        0 => 0,
        1 => r.below(300),
        2 => u64::MAX,
        3 => 1 << r.below(64),
        4 => (1u64 << r.below(64)).wrapping_sub(1),
        _ => r.next(),
    }
}
fn g_i64(r: &mut Rng) -> i64 {
    match r.below(8) {
        0 => 0,
        1 => i64::MIN,
        2 => i64::MAX,
        3 => -1,
        4 => r.below(70000) as i64 - 35000,
        5 => 1i64.wrapping_shl(r.below(64) as u32),
        _ => r.next() as i64,
    }
}
fn g_bytes(r: &mut Rng, max: u64) -> Vec<u8> {
    let len = match r.below(10) {
        0 => 0,
        1 => 127 + r.below(3),
        2 => 255 + r.below(3),
        3 => max,
        _ => r.below(20),
    };
    (0..len.min(max)).map(|_| r.next() as u8).collect()
}
fn g_text(r: &mut Rng) -> String {
    let alphabet = ["a", "Z", "0", " ", "é", "ß", "中", "😀", "\u{0}", "\u{7f}", "\u{800}", "\u{ffff}", "\u{10ffff}"];
    let len = match r.below(8) {
        0 => 0,
        1 => 200,
        _ => r.below(12),
    };
    (0..len).map(|_| alphabet[r.below(alphabet.len() as u64) as usize]).collect()
}
fn g_actor(r: &mut Rng) -> ActorId {
    let mut b = [0u8; 16];
    for x in b.iter_mut() {
        *x = r.next() as u8;
    }
    ActorId(uuid::Uuid::from_bytes(b))
}
fn v_actor(a: &ActorId) -> V {
    V::B(a.to_bytes().to_vec())
}
fn g_ts(r: &mut Rng) -> Timestamp {
    Timestamp::from(g_u64(r))
}
fn v_ts(ts: &Timestamp) -> V {
    n(ts.0.as_u64())
}
fn v_opt_ts(ts: &Option<Timestamp>) -> V {
    V::O(ts.as_ref().map(|x| Box::new(v_ts(x))))
}

fn g_sqlite_value(r: &mut Rng) -> SqliteValue {
    match r.below(5) {
        0 => SqliteValue::Null,
        1 => SqliteValue::Integer(g_i64(r)),
        2 => {
            let bits = match r.below(6) {
                0 => f64::NAN.to_bits(),
                1 => 0x7ff8_0000_dead_beef,
                2 => (-0.0f64).to_bits(),
                3 => f64::INFINITY.to_bits(),
                _ => r.next(),
            };
            SqliteValue::Real(klukai_types::api::Real(f64::from_bits(bits)))
        }
        3 => SqliteValue::Text(g_text(r).into()),
        _ => SqliteValue::Blob(g_bytes(r, 700).into()),
    }
}
fn v_sqlite_value(v: &SqliteValue) -> V {
    match v {
        SqliteValue::Null => t(0, V::U),
        SqliteValue::Integer(i) => t(1, n(*i)),
        SqliteValue::Real(f) => t(2, n(f.0.to_bits())),
        SqliteValue::Text(s) => t(3, V::B(s.as_bytes().to_vec())),
        SqliteValue::Blob(b) => t(4, V::B(b.to_vec())),
    }
}
fn g_change(r: &mut Rng) -> Change {
    let mut site = [0u8; 16];
    for x in site.iter_mut() {
        *x = r.next() as u8;
    }
    Change {
        table: TableName(g_text(r).into()),
        pk: g_bytes(r, 300),
        cid: ColumnName(g_text(r).into()),
        val: g_sqlite_value(r),
        col_version: g_i64(r),
        db_version: CrsqlDbVersion(g_u64(r)),
        seq: CrsqlSeq(g_u64(r)),
        site_id: site,
        cl: g_i64(r),
    }
}
fn v_change(c: &Change) -> V {
    st(vec![
        V::B(c.table.as_bytes().to_vec()),
        V::B(c.pk.clone()),
        V::B(c.cid.as_bytes().to_vec()),
        v_sqlite_value(&c.val),
        n(c.col_version),
        n(c.db_version.0),
        n(c.seq.0),
        V::B(c.site_id.to_vec()),
        n(c.cl),
    ])
}
/// length of a generated list: small, and now and then just around the 1024 entries that the
/// decoders use as the cap of their up-front allocation for a peer-supplied length
fn glen(r: &mut Rng, small: u64) -> u64 {
    if r.below(300) == 0 {
        [1023, 1024, 1025, 1300, 2050][r.below(5) as usize]
    } else {
        r.below(small)
    }
}
/// n ranges of u64; many of them are made small and disjoint (range sets coalesce what overlaps)
fn g_ranges(r: &mut Rng, n: u64) -> Vec<(u64, u64)> {
    if n > 100 {
        let base = r.below(1 << 40);
        (0..n).map(|i| (base + i * 16 + 1, base + i * 16 + 1 + r.below(5))).collect()
    } else {
        (0..n).map(|_| (g_u64(r), g_u64(r))).collect()
    }
}
fn g_changeset(r: &mut Rng) -> Changeset {
    match r.below(3) {
        0 => Changeset::Empty {
            versions: CrsqlDbVersion(g_u64(r))..=CrsqlDbVersion(g_u64(r)),
            ts: if r.below(2) == 0 { None } else { Some(g_ts(r)) },
        },
        1 => Changeset::Full {
            version: CrsqlDbVersion(g_u64(r)),
            changes: (0..glen(r, 5)).map(|_| g_change(r)).collect(),
            seqs: CrsqlSeq(g_u64(r))..=CrsqlSeq(g_u64(r)),
            last_seq: CrsqlSeq(g_u64(r)),
            ts: g_ts(r),
        },
        _ => Changeset::EmptySet {
            versions: { let n = glen(r, 4); g_ranges(r, n).into_iter().map(|(a, b)| CrsqlDbVersion(a)..=CrsqlDbVersion(b)).collect() },
            ts: g_ts(r),
        },
    }
}
fn v_changeset(c: &Changeset) -> V {
    match c {
        Changeset::Empty { versions, ts } => t(0, st(vec![n(versions.start().0), n(versions.end().0), v_opt_ts(ts)])),
        Changeset::Full { version, changes, seqs, last_seq, ts } => t(
            1,
            st(vec![
                n(version.0),
                V::L(changes.iter().map(v_change).collect()),
                n(seqs.start().0),
                n(seqs.end().0),
                n(last_seq.0),
                v_ts(ts),
            ]),
        ),
        Changeset::EmptySet { versions, ts } => t(
            2,
            st(vec![
                V::L(versions.iter().map(|r| V::P(Box::new(n(r.start().0)), Box::new(n(r.end().0)))).collect()),
                v_ts(ts),
            ]),
        ),
    }
}
fn g_change_v1(r: &mut Rng) -> ChangeV1 {
    ChangeV1 { actor_id: g_actor(r), changeset: g_changeset(r) }
}
fn v_change_v1(c: &ChangeV1) -> V {
    st(vec![v_actor(&c.actor_id), v_changeset(&c.changeset)])
}
fn g_need(r: &mut Rng) -> SyncNeedV1 {
    match r.below(3) {
        0 => SyncNeedV1::Full { versions: CrsqlDbVersion(g_u64(r))..=CrsqlDbVersion(g_u64(r)) },
        1 => SyncNeedV1::Partial {
            version: CrsqlDbVersion(g_u64(r)),
            seqs: { let n = glen(r, 4); g_ranges(r, n).into_iter().map(|(a, b)| CrsqlSeq(a)..=CrsqlSeq(b)).collect() },
        },
        _ => SyncNeedV1::Empty { ts: if r.below(2) == 0 { None } else { Some(g_ts(r)) } },
    }
}
fn v_need(x: &SyncNeedV1) -> V {
    match x {
        SyncNeedV1::Full { versions } => t(0, st(vec![n(versions.start().0), n(versions.end().0)])),
        SyncNeedV1::Partial { version, seqs } => t(
            1,
            st(vec![
                n(version.0),
                V::L(seqs.iter().map(|r| V::P(Box::new(n(r.start().0)), Box::new(n(r.end().0)))).collect()),
            ]),
        ),
        SyncNeedV1::Empty { ts } => t(2, v_opt_ts(ts)),
    }
}
fn g_state(r: &mut Rng) -> SyncStateV1 {
    let mut s = SyncStateV1 { actor_id: g_actor(r), ..Default::default() };
    let actors: Vec<ActorId> = (0..glen(r, 4)).map(|_| g_actor(r)).collect();
    for a in &actors {
        if r.below(4) > 0 {
            s.heads.insert(*a, CrsqlDbVersion(g_u64(r)));
        }
        if r.below(2) == 0 {
            s.need.insert(*a, { let n = glen(r, 3); g_ranges(r, n).into_iter().map(|(a, b)| CrsqlDbVersion(a)..=CrsqlDbVersion(b)).collect() });
        }
        if r.below(2) == 0 {
            let mut m = HashMap::new();
            for _ in 0..r.below(3) {
                m.insert(
                    CrsqlDbVersion(g_u64(r)),
                    { let n = glen(r, 3); g_ranges(r, n).into_iter().map(|(a, b)| CrsqlSeq(a)..=CrsqlSeq(b)).collect() },
                );
            }
            s.partial_need.insert(*a, m);
        }
    }
    if r.below(2) == 0 {
        s.last_cleared_ts = Some(g_ts(r));
    }
    s
}
fn v_state(s: &SyncStateV1) -> V {
    let rng = |a: u64, b: u64| V::P(Box::new(n(a)), Box::new(n(b)));
    st(vec![
        v_actor(&s.actor_id),
        V::L(s.heads.iter().map(|(a, h)| V::P(Box::new(v_actor(a)), Box::new(n(h.0)))).collect()),
        V::L(
            s.need
                .iter()
                .map(|(a, rs)| {
                    V::P(
                        Box::new(v_actor(a)),
                        Box::new(V::L(rs.iter().map(|r| rng(r.start().0, r.end().0)).collect())),
                    )
                })
                .collect(),
        ),
        V::L(
            s.partial_need
                .iter()
                .map(|(a, m)| {
                    V::P(
                        Box::new(v_actor(a)),
                        Box::new(V::L(
                            m.iter()
                                .map(|(v, rs)| {
                                    V::P(
                                        Box::new(n(v.0)),
                                        Box::new(V::L(rs.iter().map(|r| rng(r.start().0, r.end().0)).collect())),
                                    )
                                })
                                .collect(),
                        )),
                    )
                })
                .collect(),
        ),
        v_opt_ts(&s.last_cleared_ts),
    ])
}
fn g_opt_string(r: &mut Rng) -> Option<String> {
    if r.below(2) == 0 { None } else { Some(g_text(r)) }
}
fn v_opt_string(s: &Option<String>) -> V {
    V::O(s.as_ref().map(|x| Box::new(V::B(x.as_bytes().to_vec()))))
}

/// one generated value: (desc id, bytes, tree, real decoder re-encodes to the same bytes)
fn gen_one(r: &mut Rng) -> (usize, Vec<u8>, V, bool) {
    match r.below(8) {
        0 => {
            let m = match r.below(5) {
                0 => SyncMessageV1::State(g_state(r)),
                1 => SyncMessageV1::Changeset(g_change_v1(r)),
                2 => SyncMessageV1::Clock(g_ts(r)),
                3 => SyncMessageV1::Rejection(if r.below(2) == 0 {
                    SyncRejectionV1::MaxConcurrencyReached
                } else {
                    SyncRejectionV1::DifferentCluster
                }),
                _ => SyncMessageV1::Request(
                    (0..glen(r, 4)).map(|_| (g_actor(r), (0..glen(r, 4)).map(|_| g_need(r)).collect())).collect(),
                ),
            };
            let tree = match &m {
                SyncMessageV1::State(s) => t(0, v_state(s)),
                SyncMessageV1::Changeset(c) => t(1, v_change_v1(c)),
                SyncMessageV1::Clock(ts) => t(2, v_ts(ts)),
                SyncMessageV1::Rejection(SyncRejectionV1::MaxConcurrencyReached) => t(3, t(0, V::U)),
                SyncMessageV1::Rejection(SyncRejectionV1::DifferentCluster) => t(3, t(1, V::U)),
                SyncMessageV1::Request(rq) => t(
                    4,
                    V::L(
                        rq.iter()
                            .map(|(a, ns)| V::P(Box::new(v_actor(a)), Box::new(V::L(ns.iter().map(v_need).collect()))))
                            .collect(),
                    ),
                ),
            };
            let msg = SyncMessage::V1(m);
            let bytes = msg.write_to_vec().unwrap();
            // HashMap iteration order changes on re-decode, so compare State values, bytes otherwise
            // (PartialEq on a NaN Real is false although the bytes round-trip)
            let is_state = matches!(msg, SyncMessage::V1(SyncMessageV1::State(_)));
            let ok = SyncMessage::read_from_buffer(&bytes)
                .map(|d| if is_state { d == msg } else { d.write_to_vec().unwrap() == bytes })
                .unwrap_or(false);
            (0, bytes, t(0, tree), ok)
        }
        1 => {
            let c = g_change_v1(r);
            let cl = ClusterId(g_u64(r) as u16);
            let tree = t(0, st(vec![t(0, t(0, v_change_v1(&c))), n(cl.0)]));
            let p = UniPayload::V1 { data: UniPayloadV1::Broadcast(BroadcastV1::Change(c)), cluster_id: cl };
            let bytes = p.write_to_vec().unwrap();
            let ok = UniPayload::read_from_buffer(&bytes).map(|d| d.write_to_vec().unwrap() == bytes).unwrap_or(false);
            (1, bytes, tree, ok)
        }
        2 => {
            let a = g_actor(r);
            let tc = SyncTraceContextV1 { traceparent: g_opt_string(r), tracestate: g_opt_string(r) };
            let cl = ClusterId(g_u64(r) as u16);
            let tree = t(
                0,
                st(vec![
                    t(0, st(vec![v_actor(&a), st(vec![v_opt_string(&tc.traceparent), v_opt_string(&tc.tracestate)])])),
                    n(cl.0),
                ]),
            );
            let p = BiPayload::V1 { data: BiPayloadV1::SyncStart { actor_id: a, trace_ctx: tc }, cluster_id: cl };
            let bytes = p.write_to_vec().unwrap();
            let ok = BiPayload::read_from_buffer(&bytes).map(|d| d.write_to_vec().unwrap() == bytes).unwrap_or(false);
            (2, bytes, tree, ok)
        }
        3 => {
            let v = g_sqlite_value(r);
            let bytes = v.write_to_vec().unwrap();
            let ok = SqliteValue::read_from_buffer(&bytes).map(|d| d.write_to_vec().unwrap() == bytes).unwrap_or(false);
            (3, bytes, v_sqlite_value(&v), ok)
        }
        4 => {
            let c = g_changeset(r);
            let bytes = c.write_to_vec().unwrap();
            let ok = Changeset::read_from_buffer(&bytes).map(|d| d.write_to_vec().unwrap() == bytes).unwrap_or(false);
            (4, bytes, v_changeset(&c), ok)
        }
        5 => {
            let x = g_need(r);
            let bytes = x.write_to_vec().unwrap();
            let ok = SyncNeedV1::read_from_buffer(&bytes).map(|d| d == x).unwrap_or(false);
            (5, bytes, v_need(&x), ok)
        }
        6 => {
            let s = g_state(r);
            let bytes = s.write_to_vec().unwrap();
            let ok = SyncStateV1::read_from_buffer(&bytes).map(|d| d == s).unwrap_or(false);
            (6, bytes, v_state(&s), ok)
        }
        _ => {
            let c = g_change(r);
            let bytes = c.write_to_vec().unwrap();
            let ok = Change::read_from_buffer(&bytes).map(|d| d.write_to_vec().unwrap() == bytes).unwrap_or(false);
            (7, bytes, v_change(&c), ok)
        }
    }
}

pub fn generate(seed: u64, count: usize) {
    let mut r = Rng(seed);
    for _ in 0..count {
        let (id, bytes, tree, ok) = gen_one(&mut r);
        let mut toks = vec![];
        fmt_v(&tree, &mut toks);
        println!("wire {} {} {} {}", id, if ok { 1 } else { 0 }, hex(&bytes), toks.join(" "));
    }
}

// ---------------------------------------------------------------- line kinds
/// wire <descid> <flag> <hex> <tree..>: decode the bytes again with the real decoder and
/// re-encode; the flag computed at generation time must have been 1
pub fn wire(t: &mut Toks) -> String {
    let id = t.usize();
    let flag = t.usize();
    let bytes = unhex(t.tok());
    macro_rules! rt {
        ($ty:ty) => {
            <$ty>::read_from_buffer(&bytes).map(|d| d.write_to_vec().unwrap().len() == bytes.len()).unwrap_or(false)
        };
    }
    let again = match id {
        0 => rt!(SyncMessage),
        1 => rt!(UniPayload),
        2 => rt!(BiPayload),
        3 => rt!(SqliteValue),
        4 => rt!(Changeset),
        5 => rt!(SyncNeedV1),
        6 => rt!(SyncStateV1),
        7 => rt!(Change),
        _ => false,
    };
    format!("implrt={} wt=1 enc=1 dec=1", if flag == 1 && again { 1 } else { 0 })
}

/// decode <descid> <hex>  ->  ok | err
pub fn decode(t: &mut Toks) -> String {
    let id = t.usize();
    let bytes = unhex(t.tok());
    let ok = match id {
        0 => SyncMessage::read_from_buffer(&bytes).is_ok(),
        1 => UniPayload::read_from_buffer(&bytes).is_ok(),
        2 => BiPayload::read_from_buffer(&bytes).is_ok(),
        3 => SqliteValue::read_from_buffer(&bytes).is_ok(),
        4 => Changeset::read_from_buffer(&bytes).is_ok(),
        5 => SyncNeedV1::read_from_buffer(&bytes).is_ok(),
        6 => SyncStateV1::read_from_buffer(&bytes).is_ok(),
        7 => Change::read_from_buffer(&bytes).is_ok(),
        _ => panic!("bad desc id"),
    };
    // every Text that comes out of a decoder must be valid UTF-8
    if ok && id == 3 {
        if let Ok(SqliteValue::Text(s)) = SqliteValue::read_from_buffer(&bytes) {
            if std::str::from_utf8(s.as_bytes()).is_err() {
                return "ok-invalid-utf8".into();
            }
        }
    }
    if ok { "ok".into() } else { "err".into() }
}

fn parse_svals(t: &mut Toks) -> Vec<SqliteValue> {
    let n = t.usize();
    (0..n)
        .map(|_| match t.tok() {
            "N" => SqliteValue::Null,
            "I" => SqliteValue::Integer(t.i64()),
            "R" => SqliteValue::Real(klukai_types::api::Real(f64::from_bits(t.u64()))),
            "T" => SqliteValue::Text(String::from_utf8(unhex(t.tok())).unwrap().into()),
            "B" => SqliteValue::Blob(unhex(t.tok()).into()),
            x => panic!("bad sval {x}"),
        })
        .collect()
}

thread_local! {
    static CONN: klukai_types::sqlite::CrConn = crate::c02::open_db();
}

/// pack <n> {N | I i | R bits | T hex | B hex} -> <hex> unpack=<0/1> crsql=<0/1/->
pub fn pack(t: &mut Toks) -> String {
    let vals = parse_svals(t);
    let packed = match pack_columns(&vals) {
        Ok(p) => p,
        Err(_) => return "abort".into(),
    };
    let un = match unpack_columns(&packed) {
        Ok(refs) => {
            refs.len() == vals.len()
                && refs.iter().zip(vals.iter()).all(|(r, v)| match (&r.0, v) {
                    (rusqlite::types::ValueRef::Null, SqliteValue::Null) => true,
                    (rusqlite::types::ValueRef::Integer(a), SqliteValue::Integer(b)) => a == b,
                    (rusqlite::types::ValueRef::Real(a), SqliteValue::Real(b)) => a.to_bits() == b.0.to_bits(),
                    (rusqlite::types::ValueRef::Text(a), SqliteValue::Text(b)) => *a == b.as_bytes(),
                    (rusqlite::types::ValueRef::Blob(a), SqliteValue::Blob(b)) => *a == b.as_slice(),
                    _ => false,
                })
        }
        Err(_) => false,
    };
    // differential oracle: the extension's own packing (skipped for NaN, which SQLite binds as NULL,
    // for more columns than SQLite functions take comfortably, and for empty lists)
    let crsql_able = !vals.is_empty()
        && vals.len() <= 100
        && vals.iter().all(|v| !matches!(v, SqliteValue::Real(f) if f.0.is_nan()));
    let crsql = if crsql_able {
        CONN.with(|conn| {
            let sql = format!("SELECT crsql_pack_columns({})", vec!["?"; vals.len()].join(","));
            let res: rusqlite::Result<Vec<u8>> =
                conn.query_row(&sql, rusqlite::params_from_iter(vals.iter()), |row| row.get(0));
            match res {
                Ok(b) => if b == packed { "1" } else { "0" },
                Err(_) => "e",
            }
        })
    } else {
        "-"
    };
    format!("{} unpack={} crsql={}", hex(&packed), if un { 1 } else { 0 }, crsql)
}

/// unpack <hex> -> ok <vals> | abort | misuse
pub fn unpack(t: &mut Toks) -> String {
    let bytes = unhex(t.tok());
    match unpack_columns(&bytes) {
        Ok(refs) => {
            let items: Vec<String> = refs
                .iter()
                .map(|r| match &r.0 {
                    rusqlite::types::ValueRef::Null => "N".to_string(),
                    rusqlite::types::ValueRef::Integer(i) => format!("I{i}"),
                    rusqlite::types::ValueRef::Real(f) => format!("R{}", f.to_bits()),
                    rusqlite::types::ValueRef::Text(b) => format!("T{}", hex(b)),
                    rusqlite::types::ValueRef::Blob(b) => format!("B{}", hex(b)),
                })
                .collect();
            format!("ok {}", items.join(" "))
        }
        Err(UnpackError::Abort) => "abort".into(),
        Err(UnpackError::Misuse) => "misuse".into(),
    }
}

/// utf8 <hex> -> 1/0
pub fn utf8(t: &mut Toks) -> String {
    let bytes = unhex(t.tok());
    if std::str::from_utf8(&bytes).is_ok() { "1".into() } else { "0".into() }
}

pub fn set_memory_limit(bytes: u64) {
    unsafe {
        let lim = libc::rlimit { rlim_cur: bytes, rlim_max: bytes };
        libc::setrlimit(libc::RLIMIT_AS, &lim);
    }
}
