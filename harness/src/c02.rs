//! C02: the real BookedVersions / VersionsSnapshot on an in-memory migrated
//! database, driven the way process_multiple_changes drives them.
use crate::util::Toks;
use klukai_agent::agent::util::{process_empty_version, process_incomplete_version};
use klukai_types::{
    actor::ActorId,
    agent::{migrate, BookedVersions, Bookie, KnownDbVersion, PartialVersion},
    base::{CrsqlDbVersion, CrsqlSeq},
    broadcast::{ChangesetParts, Timestamp},
    sqlite::{setup_conn, CrConn},
    sqlite_pool::InterruptibleTransaction,
    sync::generate_sync,
};
use rangemap::RangeInclusiveSet;
use rusqlite::Connection;
use std::{collections::HashMap, fmt::Write, sync::Arc};

pub fn actor() -> ActorId {
    ActorId(uuid::Uuid::from_bytes([7u8; 16]))
}

pub fn open_db() -> CrConn {
    let mut conn = CrConn::init(Connection::open_in_memory().unwrap()).unwrap();
    setup_conn(&conn).unwrap();
    let clock = Arc::new(uhlc::HLC::default());
    migrate(clock, &mut conn).unwrap();
    conn
}

pub fn fmt_ranges_u64<I: Iterator<Item = (u64, u64)>>(it: I) -> String {
    it.map(|(a, b)| format!("{a}-{b}")).collect::<Vec<_>>().join(",")
}

pub fn fmt_bv(bv: &BookedVersions) -> String {
    let mut s = String::new();
    write!(
        s,
        "n={} m={} p=",
        fmt_ranges_u64(bv.needed().iter().map(|r| (r.start().0, r.end().0))),
        bv.last().map(|v| v.0.to_string()).unwrap_or("-".into())
    )
    .unwrap();
    let ps: Vec<String> = bv
        .partials
        .iter()
        .map(|(v, p)| {
            format!(
                "{}:{}:{}",
                v.0,
                p.last_seq.0,
                fmt_ranges_u64(p.seqs.iter().map(|r| (r.start().0, r.end().0)))
            )
        })
        .collect();
    s.push_str(&ps.join(";"));
    s
}

pub fn dump_gap_rows(conn: &Connection, actor: ActorId) -> String {
    let mut st = conn
        .prepare("SELECT start, end FROM __corro_bookkeeping_gaps WHERE actor_id = ? ORDER BY start")
        .unwrap();
    let rows: Vec<(u64, u64)> = st
        .query_map([actor], |r| Ok((r.get::<_, i64>(0)? as u64, r.get::<_, i64>(1)? as u64)))
        .unwrap()
        .map(|r| r.unwrap())
        .collect();
    fmt_ranges_u64(rows.into_iter())
}

pub fn dump_seq_rows(conn: &Connection, actor: ActorId) -> String {
    let mut st = conn
        .prepare("SELECT db_version, start_seq, end_seq, last_seq FROM __corro_seq_bookkeeping WHERE site_id = ? ORDER BY db_version, start_seq")
        .unwrap();
    let rows: Vec<String> = st
        .query_map([actor], |r| {
            Ok(format!(
                "{}:{}-{}:{}",
                r.get::<_, i64>(0)?,
                r.get::<_, i64>(1)?,
                r.get::<_, i64>(2)?,
                r.get::<_, i64>(3)?
            ))
        })
        .unwrap()
        .map(|r| r.unwrap())
        .collect();
    rows.join(";")
}

pub fn dump_dbmax(conn: &Connection, actor: ActorId) -> String {
    use rusqlite::OptionalExtension;
    let v: Option<i64> = conn
        .prepare("SELECT db_version FROM crsql_db_versions WHERE site_id = ?")
        .unwrap()
        .query_row([actor], |r| r.get(0))
        .optional()
        .unwrap();
    v.map(|v| v.to_string()).unwrap_or("-".into())
}

pub fn fmt_adv(rt: &tokio::runtime::Runtime, bv: &BookedVersions, actor: ActorId) -> String {
    let mut map = HashMap::new();
    map.insert(actor, bv.clone());
    let bookie = Bookie::new(map);
    let me = ActorId(uuid::Uuid::from_bytes([1u8; 16]));
    let st = rt.block_on(generate_sync(&bookie, me));
    match st.heads.get(&actor) {
        None => "-".into(),
        Some(h) => {
            let need = st
                .need
                .get(&actor)
                .map(|v| fmt_ranges_u64(v.iter().map(|r| (r.start().0, r.end().0))))
                .unwrap_or_default();
            let mut ps: Vec<(u64, String)> = st
                .partial_need
                .get(&actor)
                .map(|m| {
                    m.iter()
                        .map(|(v, rs)| {
                            (v.0, fmt_ranges_u64(rs.iter().map(|r| (r.start().0, r.end().0))))
                        })
                        .collect()
                })
                .unwrap_or_default();
            ps.sort();
            format!(
                "{}|{}|{}",
                h.0,
                need,
                ps.iter().map(|(v, s)| format!("{v}:{s}")).collect::<Vec<_>>().join(";")
            )
        }
    }
}

/// case: book <U> <nops> { I <k> {<s> <e>}*k | P <v> <s> <e> <last> | R }
pub fn book(t: &mut Toks) -> String {
    let rt = tokio::runtime::Builder::new_current_thread().build().unwrap();
    let u = t.u64();
    let nops = t.usize();
    let mut conn = open_db();
    let actor = actor();
    let mut bv = BookedVersions::new(actor);
    let mut outs = vec![];
    for _ in 0..nops {
        let op = t.tok();
        let out: &str = match op {
            "I" => {
                let k = t.usize();
                let raw: Vec<(u64, u64)> = (0..k).map(|_| (t.u64(), t.u64())).collect();
                let vs: RangeInclusiveSet<CrsqlDbVersion> = RangeInclusiveSet::from_iter(
                    raw.iter().map(|(s, e)| CrsqlDbVersion(*s)..=CrsqlDbVersion(*e)),
                );
                let max_before = bv.last();
                let tx = conn.transaction().unwrap();
                let itx = InterruptibleTransaction::new(tx, None, "verif");
                for r in vs.iter() {
                    if Some(*r.end()) > max_before {
                        process_empty_version(&itx, actor, r.end()).unwrap();
                    }
                }
                let mut snap = bv.snapshot();
                match snap.insert_db(&itx, vs) {
                    Ok(()) => {
                        itx.commit().unwrap();
                        bv.commit_snapshot(snap);
                        "ok"
                    }
                    Err(_) => {
                        let mut dummy = bv.clone();
                        dummy.commit_snapshot(snap);
                        drop(itx);
                        "idberr"
                    }
                }
            }
            "P" => {
                let v = t.u64();
                let s = t.u64();
                let e = t.u64();
                let last = t.u64();
                let parts = ChangesetParts {
                    version: CrsqlDbVersion(v),
                    changes: vec![],
                    seqs: CrsqlSeq(s)..=CrsqlSeq(e),
                    last_seq: CrsqlSeq(last),
                    ts: Timestamp::from(1u64),
                };
                let tx = conn.transaction().unwrap();
                let itx = InterruptibleTransaction::new(tx, None, "verif");
                match process_incomplete_version(&itx, actor, &parts) {
                    Ok(KnownDbVersion::Partial(p)) => {
                        let mut snap = bv.snapshot();
                        let vs: RangeInclusiveSet<CrsqlDbVersion> =
                            [CrsqlDbVersion(v)..=CrsqlDbVersion(v)].into_iter().collect();
                        match snap.insert_db(&itx, vs) {
                            Ok(()) => {
                                itx.commit().unwrap();
                                bv.commit_snapshot(snap);
                                let _: PartialVersion = bv.insert_partial(CrsqlDbVersion(v), p);
                                "ok"
                            }
                            Err(_) => {
                                let mut dummy = bv.clone();
                                dummy.commit_snapshot(snap);
                                drop(itx);
                                "idberr"
                            }
                        }
                    }
                    Ok(_) => "unexpected",
                    Err(rusqlite::Error::StatementChangedRows(_)) => "failsafe",
                    Err(_) => "conflict",
                }
            }
            "R" => {
                bv = BookedVersions::from_conn(&conn, actor).unwrap();
                "ok"
            }
            x => panic!("bad op {x}"),
        };
        let fc = BookedVersions::from_conn(&conn, actor).unwrap();
        let cv: String = (1..=u)
            .map(|v| if bv.contains_version(&CrsqlDbVersion(v)) { '1' } else { '0' })
            .collect();
        outs.push(format!(
            "{} {} g={} s={} d={} adv={} fc=[{}] cv={}",
            out,
            fmt_bv(&bv),
            dump_gap_rows(&conn, actor),
            dump_seq_rows(&conn, actor),
            dump_dbmax(&conn, actor),
            fmt_adv(&rt, &bv, actor),
            fmt_bv(&fc),
            cv
        ));
    }
    outs.join(" # ")
}
