(* What a restart rebuilds: BookedVersions::from_conn of the durable rows
   satisfies the bookkeeping invariant (so every theorem about reachable
   bookkeeping states -- C02 partition, C04 requests, C05 answers -- applies to
   the state after a crash at any commit boundary). *)
From Coq Require Import List ZArith Bool Lia.
From Corro Require Import Lib.Ivl Model.Book Proofs.BookProofs.
Import ListNotations.
Open Scope Z_scope.

Definition step_sr (b : bv) (r : seqrow) : bv :=
  fst (insert_partial b (sr_version r) (mkPartial [(sr_start r, sr_end r)] (sr_last r))).

(* the fold of insert_partial over the seq rows: needed stays empty *)
Record PInv (b : bv) (lo : Z) : Prop := {
  pi_needed : needed b = [];
  pi_keys : keys_sorted 1 (partials b) = true;
  pi_part : forall v p, aget v (partials b) = Some p -> 1 <= v <= max0 (maxv b);
  pi_max : lo <= max0 (maxv b) }.

Lemma step_sr_inv b lo r : PInv b lo -> 1 <= sr_version r -> PInv (step_sr b r) lo /\ sr_version r <= max0 (maxv (step_sr b r)).
Proof.
  intros [Hn Hk Hp Hm] Hv. unfold step_sr, insert_partial.
  destruct (aget (sr_version r) (partials b)) as [got|] eqn:Eg; cbn [fst].
  - split; [|apply Hp in Eg; cbn; lia].
    constructor; cbn [needed partials maxv]; try assumption.
    + apply keys_sorted_aset; [exact Hk|lia].
    + intros v p Hg. destruct (Z.eq_dec v (sr_version r)) as [->|Hne]; [apply (Hp _ _ Eg)|].
      rewrite aget_aset_other in Hg by exact Hne. apply (Hp _ _ Hg).
  - assert (Hmx : max0 (maxv b) <= max0 (omax (maxv b) (sr_version r)) /\ sr_version r <= max0 (omax (maxv b) (sr_version r))).
    { destruct (maxv b); cbn in *; lia. }
    split; [|cbn; lia].
    constructor; cbn [needed partials maxv]; try assumption.
    + apply keys_sorted_aset; [exact Hk|lia].
    + intros v p Hg. destruct (Z.eq_dec v (sr_version r)) as [->|Hne]; [lia|].
      rewrite aget_aset_other in Hg by exact Hne. specialize (Hp _ _ Hg). lia.
    + lia.
Qed.

Lemma fold_sr_inv : forall rows b lo,
  PInv b lo -> Forall (fun r => 1 <= sr_version r) rows ->
  PInv (fold_left step_sr rows b) lo /\
  (forall r, In r rows -> sr_version r <= max0 (maxv (fold_left step_sr rows b))) /\
  (forall v p, aget v (partials (fold_left step_sr rows b)) = Some p ->
     (exists p0, aget v (partials b) = Some p0) \/ exists r, In r rows /\ sr_version r = v).
Proof.
  induction rows as [|r rows IH]; intros b lo Hi Hall; cbn [fold_left].
  - split; [exact Hi|]. split; [intros r []|]. intros v p H. left. eauto.
  - inversion Hall as [|? ? Hr Hrest]; subst.
    destruct (step_sr_inv b lo r Hi Hr) as [Hi' Hle].
    destruct (IH (step_sr b r) lo Hi' Hrest) as (H1 & H2 & H3).
    split; [exact H1|]. split.
    + intros r' [<-|Hin]; [|apply H2, Hin].
      (* max only grows along the fold *)
      assert (Hmono : forall rs b0, Forall (fun r => 1 <= sr_version r) rs -> forall l0, PInv b0 l0 ->
                 max0 (maxv b0) <= max0 (maxv (fold_left step_sr rs b0))).
      { induction rs as [|x rs IHr]; intros b0 Hf l0 Hb0; cbn [fold_left]; [lia|].
        inversion Hf; subst. destruct (step_sr_inv b0 (max0 (maxv b0)) x) as [Hx _].
        { destruct Hb0. constructor; try assumption. lia. }
        { assumption. }
        specialize (IHr (step_sr b0 x) ltac:(assumption) _ Hx). destruct Hx. lia. }
      specialize (Hmono rows (step_sr b r) Hrest lo Hi'). lia.
    + intros v p Hg. destruct (H3 v p Hg) as [(p0 & Hp0)|(r' & Hr' & Hv)].
      * unfold step_sr, insert_partial in Hp0.
        destruct (aget (sr_version r) (partials b)) as [got|] eqn:Eg; cbn [fst partials] in Hp0.
        -- destruct (Z.eq_dec v (sr_version r)) as [->|Hne]; [left; eauto|].
           rewrite aget_aset_other in Hp0 by exact Hne. left; eauto.
        -- destruct (Z.eq_dec v (sr_version r)) as [->|Hne]; [right; exists r; split; [left; reflexivity|reflexivity]|].
           rewrite aget_aset_other in Hp0 by exact Hne. left; eauto.
      * right. exists r'. split; [right; exact Hr'|exact Hv].
Qed.

(* durable rows as every commit leaves them *)
Record DurInv (dbmax : option Z) (seqrows : list seqrow) (gaprows : rows) : Prop := {
  du_canon : canonical gaprows;
  du_dbmax : 0 <= max0 dbmax;
  du_seq_pos : Forall (fun r => 1 <= sr_version r) seqrows;
  du_seq_not_gap : forall r, In r seqrows -> ~ mem (sr_version r) gaprows;
  (* every needed version lies below a version the node knows about *)
  du_gap_range : forall x, mem x gaprows ->
     1 <= x /\ (x < max0 dbmax \/ exists r, In r seqrows /\ x < sr_version r) }.

Theorem from_conn_inv dbmax seqrows gaprows :
  DurInv dbmax seqrows gaprows ->
  Inv (from_conn dbmax seqrows gaprows) gaprows.
Proof.
  intros [Hc Hd Hsp Hsn Hgr]. unfold from_conn.
  change (fold_left (fun b r => fst (insert_partial b (sr_version r)
            (mkPartial [(sr_start r, sr_end r)] (sr_last r)))) seqrows (mkBv [] [] dbmax))
    with (fold_left step_sr seqrows (mkBv [] [] dbmax)).
  set (b1 := fold_left step_sr seqrows (mkBv [] [] dbmax)).
  assert (Hi0 : PInv (mkBv [] [] dbmax) (max0 dbmax)).
  { constructor; cbn; [reflexivity|reflexivity|intros v p H; discriminate|lia]. }
  destruct (fold_sr_inv seqrows _ _ Hi0 Hsp) as ([Hn Hk Hp Hm] & Hle & Hsrc). fold b1 in Hn, Hk, Hp, Hm, Hle, Hsrc.
  assert (Hnorm : ins_all gaprows [] = gaprows) by (apply norm_id; exact Hc).
  constructor; cbn [needed partials maxv].
  - rewrite Hnorm. exact Hc.
  - symmetry. exact Hnorm.
  - lia.
  - rewrite Hnorm. intros x Hx. destruct (Hgr x Hx) as [H1 [H2|(r & Hr & H2)]]; [lia|].
    specialize (Hle r Hr). lia.
  - intros v p Hg. split; [apply (Hp _ _ Hg)|]. rewrite Hnorm.
    destruct (Hsrc v p Hg) as [(p0 & H0)|(r & Hr & <-)]; [discriminate|]. apply Hsn, Hr.
  - exact Hk.
Qed.
