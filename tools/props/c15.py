"""C15 — schema changes are additive, atomic, idempotent and survive restart."""
import random, re, copy
import vlib, flow

COLN = ["a", "b", "c", "d", "e", "f"]


def tab_tokens(t):
    cols = " ".join("%s %s %d %s %d" % (c["n"], c["ty"], c["nn"], c["d"], c["fk"]) for c in t["cols"])
    idx = " ".join("%s %d %d %s" % (i["n"], i["u"], len(i["cols"]), " ".join(i["cols"])) for i in t["idx"])
    return "T %s %d %s %d %s %d %d %s" % (t["name"], len(t["cols"]), cols, len(t["pk"]), " ".join(t["pk"]), t["style"], len(t["idx"]), idx)


def fresh_table(rnd, name):
    npk = rnd.choice([1, 1, 2])
    ncol = rnd.randrange(npk + 1, 5)
    cols = []
    for i in range(ncol):
        n = COLN[i]
        if i < npk:
            cols.append({"n": n, "ty": "I", "nn": 1, "d": "-", "fk": 0})
        else:
            ty = rnd.choice(["I", "I", "T"])
            nn = rnd.random() < 0.3
            d = rnd.choice(["0", "1"]) if ty == "I" else "s"
            if not nn and rnd.random() < 0.5:
                d = "-"
            cols.append({"n": n, "ty": ty, "nn": int(nn), "d": d, "fk": 0})
    t = {"name": name, "cols": cols, "pk": [COLN[i] for i in range(npk)], "style": 1 if (npk == 1 and rnd.random() < 0.5) else 0, "idx": []}
    if rnd.random() < 0.4:
        t["idx"].append({"n": "i%s1" % name[1], "u": 0, "cols": [rnd.choice([c["n"] for c in cols])]})
    return t


def edit(rnd, t):
    """-> (new table def, tag, expected_ok or None when the generator does not predict)"""
    t = copy.deepcopy(t)
    used = [c["n"] for c in t["cols"]]
    free = [n for n in COLN if n not in used]
    nonpk = [c for c in t["cols"] if c["n"] not in t["pk"]]
    x = rnd.random()
    if x < 0.10:
        return t, "same", True
    if x < 0.30 and free:
        ty = rnd.choice(["I", "T"])
        pos = rnd.randrange(len(t["pk"]), len(t["cols"]) + 1)
        t["cols"].insert(pos, {"n": free[0], "ty": ty, "nn": 0, "d": rnd.choice(["-", "0" if ty == "I" else "s", "n"]), "fk": 0})
        return t, "add-nullable-column", True
    if x < 0.40 and free:
        t["cols"].append({"n": free[0], "ty": "I", "nn": 1, "d": rnd.choice(["0", "1"]), "fk": 0})
        return t, "add-notnull-default-column", True
    if x < 0.46 and free:
        t["cols"].append({"n": free[0], "ty": "I", "nn": 1, "d": "-", "fk": 0})
        return t, "add-notnull-nodefault", False
    if x < 0.50 and free:
        t["cols"].append({"n": free[0], "ty": "I", "nn": 1, "d": "n", "fk": 0})
        return t, "add-notnull-default-null", False
    if x < 0.56 and nonpk:
        t["cols"].remove(rnd.choice(nonpk))
        t["idx"] = [i for i in t["idx"] if all(c in [k["n"] for k in t["cols"]] for c in i["cols"])]
        return t, "drop-column", False
    if x < 0.62 and nonpk:
        c = rnd.choice(nonpk); c["ty"] = "T" if c["ty"] == "I" else "I"
        return t, "change-type", False
    if x < 0.67 and nonpk:
        c = rnd.choice(nonpk); c["d"] = "1" if c["d"] != "1" else "0"
        return t, "change-default", False
    if x < 0.72 and nonpk:
        c = rnd.choice(nonpk)
        if c["nn"]:
            c["nn"] = 0
        else:
            c["nn"] = 1
            if c["d"] in ("-", "n"):
                c["d"] = "0"
        return t, "change-nullability", False
    if x < 0.76 and nonpk:
        c = rnd.choice(nonpk); t["pk"].append(c["n"]); t["style"] = 0; c["nn"] = 1
        return t, "extend-primary-key", False
    if x < 0.80 and free:
        t["cols"].append({"n": free[0], "ty": "I", "nn": 1, "d": "-", "fk": 0}); t["pk"].append(free[0]); t["style"] = 0
        return t, "add-primary-key-column", False
    if x < 0.84 and len(t["pk"]) == 2:
        t["pk"].reverse()
        return t, "reorder-primary-key", False
    if x < 0.87 and len(t["pk"]) == 1:
        t["style"] = 1 - t["style"]
        return t, "pk-constraint-style", False          # the column definition text changes
    if x < 0.90:
        t["idx"].append({"n": "i%s%d" % (t["name"][1], len(t["idx"]) + 2), "u": 1, "cols": [t["cols"][-1]["n"]]})
        return t, "unique-index", False
    if x < 0.93 and nonpk:
        rnd.choice(nonpk)["fk"] = 1
        return t, "foreign-key", False
    if x < 0.96:
        if t["idx"] and rnd.random() < 0.5:
            t["idx"].pop()
            return t, "drop-index", True
        t["idx"].append({"n": "i%s%d" % (t["name"][1], len(t["idx"]) + 2), "u": 0, "cols": [rnd.choice(t["cols"])["n"]]})
        return t, "add-index", True
    if t["idx"]:
        t["idx"][0]["cols"] = [rnd.choice(t["cols"])["n"], t["cols"][0]["n"]]
        return t, "change-index", None
    t["idx"].append({"n": "i%s9" % t["name"][1], "u": 0, "cols": ["z"]})
    return t, "index-on-missing-column", False


def parse_struct(s):
    """'s1[a:I:1:-:1,...](pk=a.b)(idx=i:0:c;...)|...' -> {name: (cols dict, pk list, idx set)}"""
    out = {}
    for t in [x for x in s.split("|") if x]:
        m = re.match(r"(\w+)\[(.*)\]\(pk=(.*)\)\(idx=(.*)\)$", t)
        if not m:
            return None
        cols = {}
        for c in [x for x in m.group(2).split(",") if x]:
            n, rest = c.split(":", 1)
            cols[n] = rest
        out[m.group(1)] = (cols, [x for x in m.group(3).split(".") if x], set(x for x in m.group(4).split(";") if x))
    return out


def parse_rows(s):
    out = {}
    for t in [x for x in s.split("|") if x]:
        n, rs = t.split("=", 1)
        out[n] = [r.split(",") for r in rs.split(";") if r]
    return out


class C15(flow.Spec):
    pid = "C15"
    shards = 16
    rule = ("sequences of schema submissions through the real api_v1_db_schema on a real agent, with rows inserted in between: "
            "new tables (single/composite keys, inline or table-level PRIMARY KEY), added columns (nullable, NOT NULL with default, "
            "in the middle of the definition), indexes added/changed/dropped, and every forbidden edit (dropped column, changed "
            "type/default/nullability, extended/added/reordered primary key, changed PRIMARY KEY style, unique index, foreign key, "
            "NOT NULL column without default or with DEFAULT NULL, index on a missing column, table without primary key, syntax "
            "error) alone and as the LAST part of a multi-table submission (partial application). After every step: status, "
            "agent.schema(), PRAGMA table_info / sqlite_schema, init_schema(db) (what a restart computes), CRR status and all rows "
            "must equal the Coq model; property checks on the implementation's own observations: a rejected submission changes "
            "nothing; an accepted one keeps every table, primary key, column definition and row; agent.schema() == database == "
            "init_schema; re-submitting an accepted submission changes nothing. non-trivial = distinct histories with both an "
            "accepted alteration of a populated table and a rejection")
    assumptions = ["column order is not compared (ALTER TABLE appends, the in-memory schema keeps the submitted order)",
                   "SQLite / cr-sqlite DDL execution is an oracle summarised by three rules in the model (CRR needs a primary key, ADD COLUMN NOT NULL needs a non-NULL default, an index needs its columns)",
                   "schema files applied at start-up (setup.rs) go through the same apply_schema but are not driven here"]

    def cases(self, tier, seed):
        rnd = random.Random(seed)
        out = []
        N = 120 if tier == "quick" else 4000
        for _ in range(N):
            tags = set()
            cur = {}
            ops = []
            rowid = 1
            for step in range(rnd.randrange(4, 10)):
                sub, names = [], []
                ntab = rnd.choice([1, 1, 2, 3])
                bad_last = False
                for k in range(ntab):
                    if rnd.random() < 0.05:
                        sub.append("B"); tags.add("syntax-error"); bad_last = True
                        continue
                    name = rnd.choice(["s1", "s2", "s3"])
                    if name in names:
                        continue
                    names.append(name)
                    if name not in cur:
                        t = fresh_table(rnd, name); tg, exp = "new-table", True
                        if rnd.random() < 0.06:
                            t["pk"] = []; t["style"] = 0; tg, exp = "table-without-primary-key", False
                    else:
                        t, tg, exp = edit(rnd, cur[name])
                    tags.add(tg)
                    sub.append((t, exp))
                toks = [x if x == "B" else tab_tokens(x[0]) for x in sub]
                if len(sub) > 1:
                    tags.add("multi-table-submission")
                ops.append("S %d %s" % (len(sub), " ".join(toks)))
                ok = all(x != "B" and x[1] is True for x in sub)
                unknown = any(x != "B" and x[1] is None for x in sub)
                if ok and not unknown:
                    for x in sub:
                        cur[x[0]["name"]] = x[0]
                    if rnd.random() < 0.3:
                        ops.append(ops[-1]); tags.add("resubmit-accepted")
                elif unknown:
                    break          # the generator does not track this outcome: stop the history here
                # rows
                for name, t in cur.items():
                    if rnd.random() < 0.6:
                        kv = []
                        for pkc in t["pk"]:
                            kv.append("%s %d" % (pkc, rowid))
                        rowid += 1
                        for c in t["cols"]:
                            if c["n"] not in t["pk"] and c["ty"] == "I" and rnd.random() < 0.6:
                                kv.append("%s %d" % (c["n"], rnd.randrange(0, 9)))
                        ops.append("W %s %d %s" % (name, len(kv), " ".join(kv))); tags.add("rows")
            out.append(("schema %d %s" % (len(ops), " ".join(ops)), tags))
        return out

    def normalize(self, obs):
        # the model has no init/crr fields: compare ok, mem, db, rows
        steps = []
        for st in obs.split(" # "):
            f = dict(re.findall(r"(\w+)=(\S*)", st))
            if "rows" in f:
                # an integer written into a TEXT column is stored as text (type affinity, SQLite's
                # business): the harness prints it as t<digits>, the model as <digits>
                f["rows"] = re.sub(r"(?<![A-Za-z0-9])t(\d+)", r"\1", f["rows"])
            steps.append("|".join("%s=%s" % (k, f.get(k, "")) for k in ("ok", "w", "mem", "db", "rows") if k in f))
        return " # ".join(steps)

    def nontrivial(self, case, model_obs):
        return "ok=0" in model_obs and "ok=1" in model_obs

    def impl_verdict(self, case, impl_obs):
        if impl_obs.startswith(("PANIC", "ERR", "CRASH")):
            return False
        prev = None
        prev_rows = {}
        last_ok_sub = None
        ops = re.findall(r"(?:^| )(S|W) ", case)
        # the W operations of the case, in order
        wops = []
        toks = case.split()
        i = 2
        while i < len(toks):
            if toks[i] == "W":
                k = int(toks[i + 2])
                wops.append((toks[i + 1], toks[i + 3:i + 3 + 2 * k:2]))
                i += 3 + 2 * k
            else:
                i += 1
        wi = 0
        for st in impl_obs.split(" # "):
            f = dict(re.findall(r"(\w+)=(\S*)", st))
            if "w" in f:
                # a row with a fresh key and values for existing columns must be accepted whenever
                # every NOT NULL column is given or has a non-NULL default: in particular after a
                # rejected submission the node must still be able to write
                if wi < len(wops):
                    tb, given = wops[wi]
                    wi += 1
                    if prev is not None and tb in prev:
                        cols = prev[tb][0]
                        expect = all(g in cols for g in given) and all(
                            (cd.split(":")[1] == "0") or (cn in given) or (cd.split(":")[2] not in ("-", "n"))
                            for cn, cd in cols.items())
                        if expect and f.get("w") != "1":
                            return False
                prev_rows = parse_rows(f.get("rows", ""))
                continue
            mem, db, init = parse_struct(f.get("mem", "")), parse_struct(f.get("db", "")), parse_struct(f.get("init", ""))
            rows = parse_rows(f.get("rows", ""))
            if mem is None or db is None or init is None:
                return False
            # the node works with what the database has, and a restart computes the same
            if mem != db or init != mem:
                return False
            if set(f.get("crr", "").split(",")) - {""} != set(db):
                return False
            if prev is not None:
                if f.get("ok") == "0":
                    if db != prev or rows != prev_rows:
                        return False
                else:
                    for name, (cols, pk, _) in prev.items():
                        if name not in db or db[name][1] != pk:
                            return False
                        for cn, cd in cols.items():
                            if db[name][0].get(cn) != cd:
                                return False
                        # rows: same number, old columns keep their values (columns are printed in name order)
                        old_names = sorted(cols); new_names = sorted(db[name][0])
                        pos = [new_names.index(n) for n in old_names]
                        got = [[r[p] for p in pos] for r in rows.get(name, [])]
                        if got != prev_rows.get(name, []):
                            return False
            elif f.get("ok") == "0" and db:
                return False
            prev, prev_rows = db, rows
        return None


SPEC = C15
