(* C01 — Replicas converge under any delivery order, duplication, chunking and loss.
   PARTIAL: what is proved here is the CRDT layer (Model/Crdt.v, a model of
   cr-sqlite's merge earned by differential testing against the real extension):
   CONVERGENCE of that layer -- two nodes that merged the same change records, in any
   order and any number of times each, show identical tables and identical per-cell
   versions, and what they show is an order-free function of the record set
   (Model/CrdtSpec.v); records that were superseded may even be missing on one side --
   plus: duplication is harmless, changes to different rows are independent of order, a
   row's causal length never goes back, and a node never shows a value that no
   merged record carried.  The replication layers the cluster-level argument rests on
   are the theorems of C02 (exact advertisement), C03 (seq ranges), C04 (requests
   are complete), C05 (answers are exact), C06 (restart), C07 (local versions),
   C08 (tiling), C10 (nothing lost for good).  The cluster-level statement itself is
   checked on clusters of real agents (see the evidence), not proved. *)
From Coq Require Import List ZArith Bool Lia.
From Corro Require Import Model.Crdt Model.CrdtSpec Proofs.CrdtProofs Proofs.ConvergeProofs.
Import ListNotations.
Open Scope Z_scope.

(* CONVERGENCE of the CRDT layer.  rs1 and rs2 are the change records two nodes have merged,
   in the order each node merged them: the same records (as sets -- any permutation, any
   duplication), well-formed (causal lengths from 1, data records with a column version from
   1, the newest generation of a live row carries the column's value: cr-sqlite writes every
   column of an inserted row and Corrosion applies a version only as a whole).  Then both
   nodes show byte-identical tables and identical (causal length, column version) per cell. *)
Theorem C01_same_records_same_state : forall rs1 rs2,
  wf rs1 -> (forall r, In r rs1 <-> In r rs2) ->
  table (merge_all [] rs1) = table (merge_all [] rs2) /\
  versions (merge_all [] rs1) = versions (merge_all [] rs2).
Proof. exact converge_tables. Qed.
Print Assumptions C01_same_records_same_state.

(* ... and what they show is "the merge of everything acknowledged": per row, the greatest
   causal length; deleted if it is even; otherwise the greatest (column version, value) among
   the data records of that generation -- a function of the record set alone *)
Theorem C01_state_is_the_order_free_merge : forall rs k,
  wf rs -> option_map row_obs (dget k (merge_all [] rs)) = row_spec (on_row k rs).
Proof. exact merge_all_spec. Qed.
Print Assumptions C01_state_is_the_order_free_merge.

Theorem C01_spec_ignores_order_and_multiplicity : forall P1 P2,
  (forall r, In r P1 <-> In r P2) -> forallb rec_ok P1 = true -> row_spec P1 = row_spec P2.
Proof. exact row_spec_members. Qed.
Print Assumptions C01_spec_ignores_order_and_multiplicity.

(* loss of superseded records: a node that only ever received the records that survive at
   their origin (overwritten cells are not kept, their versions are served as cleared) shows
   the same state as a node that saw every intermediate record *)
Theorem C01_superseded_records_may_be_missing : forall rs1 rs2,
  wf rs1 -> wf rs2 ->
  (forall r, In r rs2 -> In r rs1) ->
  (forall r, In r rs1 -> In r rs2 \/ exists r', In r' rs2 /\ r_row r' = r_row r /\ dominated r r') ->
  table (merge_all [] rs1) = table (merge_all [] rs2) /\
  versions (merge_all [] rs1) = versions (merge_all [] rs2).
Proof. exact converge_superseded. Qed.
Print Assumptions C01_superseded_records_may_be_missing.

(* duplication: merging a record a second time changes nothing, whatever was
   merged in between -- for every database state and every record *)
Theorem C01_duplicate_delivery_is_harmless : forall d r k,
  1 <= r_cl r -> dget k (merge (merge d r) r) = dget k (merge d r).
Proof. exact merge_idem. Qed.
Print Assumptions C01_duplicate_delivery_is_harmless.

(* reordering: records about different rows commute *)
Theorem C01_rows_are_independent : forall d r1 r2 k,
  r_row r1 <> r_row r2 ->
  dget k (merge (merge d r1) r2) = dget k (merge (merge d r2) r1).
Proof. exact merge_comm_rows. Qed.
Print Assumptions C01_rows_are_independent.

(* a row's causal length never decreases (a delete is never undone by an older write) *)
Theorem C01_causal_length_monotone : forall o r, local_cl o <= local_cl (merge_row o r).
Proof. exact merge_cl_monotone. Qed.
Print Assumptions C01_causal_length_monotone.

(* no value from nowhere *)
Theorem C01_no_value_from_nowhere : forall o r s' c',
  merge_row o r = Some s' -> rw_col s' = Some c' ->
  c_val c' = r_val r \/ exists s c, o = Some s /\ rw_col s = Some c /\ c_val c = c_val c'.
Proof. exact merge_value_origin. Qed.
Print Assumptions C01_no_value_from_nowhere.

(* merge only touches the row of the record *)
Theorem C01_merge_is_local : forall d r k,
  dget k (merge d r) = if k =? r_row r then merge_row (dget (r_row r) d) r else dget k d.
Proof. exact merge_get. Qed.
Print Assumptions C01_merge_is_local.

(* the hypotheses are satisfiable by a history with conflicting writes, a delete, a
   re-insert and an update after it, merged in two different orders with duplicates; and the
   well-formedness condition matters: a lone re-insert marker (its value never delivered)
   leaves an order-dependent leftover *)
Example C01_convergence_nonvacuous :
  let a := mkRec 1 false 5 1 1 0 1 0 in      (* site 0 writes 5 *)
  let b := mkRec 1 false 7 1 1 1 1 0 in      (* site 1 writes 7 concurrently *)
  let x := mkRec 1 true 0 2 2 0 2 0 in       (* site 0 deletes *)
  let s := mkRec 1 true 0 3 3 1 2 0 in       (* site 1 re-inserts: marker ... *)
  let c := mkRec 1 false 9 1 3 1 2 1 in      (* ... and value 9 *)
  let u := mkRec 1 false 4 2 3 0 3 0 in      (* site 0 updates to 4 *)
  let o := mkRec 2 false 1 1 1 0 4 0 in      (* another row *)
  let rs1 := [a; b; x; s; c; u; o] in
  let rs2 := [u; o; c; c; a; s; x; b; b; u] in
  (forall k, wf_row (on_row k rs1) = true) /\
  table (merge_all [] rs1) = [(1, Some 4); (2, Some 1)] /\
  table (merge_all [] rs2) = [(1, Some 4); (2, Some 1)] /\
  versions (merge_all [] rs1) = versions (merge_all [] rs2) /\
  wf_row [a; s] = false /\
  table (merge_all [] [a; s]) <> table (merge_all [] [s; a]).
Proof.
  cbv zeta. split.
  - intros k. destruct (Z.eq_dec k 1) as [->|H1]; [vm_compute; reflexivity|].
    destruct (Z.eq_dec k 2) as [->|H2]; [vm_compute; reflexivity|].
    unfold on_row. cbn [filter r_row].
    destruct (1 =? k) eqn:E1; [apply Z.eqb_eq in E1; congruence|].
    destruct (2 =? k) eqn:E2; [apply Z.eqb_eq in E2; congruence|]. reflexivity.
  - vm_compute. repeat split; try reflexivity. intros H; discriminate H.
Qed.

Example C01_nonvacuous :
  let a := mkRec 1 false 5 1 1 0 1 0 in      (* site 0 writes 5 *)
  let b := mkRec 1 false 7 1 1 1 1 0 in      (* site 1 writes 7 concurrently *)
  let x := mkRec 1 true 0 2 2 0 2 0 in       (* site 0 deletes *)
  table (merge_all [] [a; b]) = table (merge_all [] [b; a]) /\
  table (merge_all [] [a; b]) = [(1, Some 7)] /\
  table (merge_all [] [a; x; b]) = [] /\ table (merge_all [] [x; b; a]) = [].
Proof. vm_compute. repeat split; reflexivity. Qed.

(* Where the cluster-level statement FAILS on the unchanged code (known finding
   resurrect-duplicate-seq, replayed on three real agents: corpus/C01/found.cases).
   Step 1, proved here for every database and every record: a data record whose causal
   length is above the local one resurrects the row and leaves TWO clock rows -- the new
   sentinel and the column -- under the position (site, db_version, seq) of that one
   record.  Step 2 (C08_served_is_prefix_up_to_last_seq): a relay serving that version
   hands out the rows only up to the first one whose seq is last_seq, so the column record
   is not sent when it is the version's last.  Step 3 (C04/C02): the receiver marks the
   version known and never asks again. *)
Theorem C01_resurrecting_merge_stores_two_records_at_one_position : forall d r,
  r_sent r = false -> Z.odd (r_cl r) = true -> r_cl r <> 1 ->
  local_cl (dget (r_row r) d) < r_cl r ->
  exists c, dget (r_row r) (merge d r) = Some (mkRow (r_cl r) (Some (rclk r)) (Some c)) /\
            c_clk c = rclk r /\ c_val c = r_val r /\ c_colv c = r_colv r.
Proof. exact resurrect_two_records_one_position. Qed.
Print Assumptions C01_resurrecting_merge_stores_two_records_at_one_position.

(* the shape of the replayed history: node 0 holds row 2 at causal length 1 (its own insert),
   then merges node 1's record (text, col_version 2, causal length 3, db_version 3, seq 0) *)
Example C01_resurrect_shape :
  let own := mkRec 2 false 5601 1 1 0 1 0 in
  let r := mkRec 2 false 7517 2 3 1 3 0 in
  dget 2 (merge (merge [] own) r) =
    Some (mkRow 3 (Some (mkClk 1 3 0)) (Some (mkCell 7517 2 (mkClk 1 3 0)))).
Proof. vm_compute. reflexivity. Qed.
