(* Generic model of the speedy (little-endian) codecs used on the gossip and
   sync wire: a codec DESCRIPTION, untyped VALUES, enc/dec over byte lists.
   Concrete descriptions of the protocol types are in Gen/WireDescs.v,
   regenerated from the Rust source by tools/wire2coq.py. *)
From Coq Require Import List ZArith Bool.
From Corro Require Import Lib.Utf8.
Import ListNotations.
Open Scope Z_scope.

Inductive desc :=
| DUInt (nbytes : nat)            (* u8/u16/u32/u64, little endian; usize is u64 *)
| DI64
| DFixed (n : nat)                (* n raw bytes: [u8;16], Uuid *)
| DBytes                          (* Vec<u8> / &[u8]: u32 length + bytes *)
| DStr                            (* String/&str: u32 length + bytes, UTF-8 checked on read *)
| DOpt (d : desc)                 (* u8 flag (0 = None, anything else = Some) *)
| DVec32 (d : desc)               (* Vec<T>, HashMap (as pairs): u32 length *)
| DVec64 (d : desc)               (* hand-written: usize length (u64), element loop *)
| DPair (a b : desc)
| DSum (tagbytes : nat) (alts : list desc)   (* tag = index of the alternative *)
| DEofDefault (d : desc)          (* #[speedy(default_on_eof)] *)
| DMin (n : nat) (d : desc)       (* overrides minimum_bytes_needed() *)
| DUnit.

Inductive val :=
| VN (n : Z)
| VB (bs : list Z)
| VO (o : option val)
| VL (l : list val)
| VP (a b : val)
| VT (tag : nat) (v : val)
| VU.

Fixpoint le_bytes (n : nat) (u : Z) : list Z :=
  match n with O => [] | S k => u mod 256 :: le_bytes k (u / 256) end.

Fixpoint le_val (bs : list Z) : Z :=
  match bs with [] => 0 | b :: t => b + 256 * le_val t end.

Fixpoint take_n (n : nat) (bs : list Z) : option (list Z * list Z) :=
  match n with
  | O => Some ([], bs)
  | S k => match bs with
           | [] => None
           | b :: t => match take_n k t with Some (h, r) => Some (b :: h, r) | None => None end
           end
  end.

(* data-dependent lengths: recursion on the byte list, never on a number read from the wire *)
Fixpoint take_z (k : Z) (bs : list Z) {struct bs} : option (list Z * list Z) :=
  if k <=? 0 then Some ([], bs)
  else match bs with
       | [] => None
       | b :: t => match take_z (k - 1) t with Some (h, r) => Some (b :: h, r) | None => None end
       end.

Definition of_u64 (u : Z) : Z := if u <? 2 ^ 63 then u else u - 2 ^ 64.

Fixpoint min_list (l : list nat) : nat :=
  match l with [] => O | [x] => x | x :: t => Nat.min x (min_list t) end.

Fixpoint min_bytes (d : desc) : nat :=
  match d with
  | DUInt n => n
  | DI64 => 8
  | DFixed n => n
  | DBytes | DStr => 4
  | DOpt _ => 1
  | DVec32 _ => 4
  | DVec64 _ => 8
  | DPair a b => min_bytes a + min_bytes b
  | DSum tb alts => tb + min_list (map min_bytes alts)
  | DEofDefault _ => 0
  | DMin n _ => n
  | DUnit => 0
  end.

Fixpoint default_of (d : desc) : val :=
  match d with
  | DUInt _ | DI64 => VN 0
  | DFixed n => VB (repeat 0 n)
  | DBytes | DStr => VB []
  | DOpt _ => VO None
  | DVec32 _ | DVec64 _ => VL []
  | DPair a b => VP (default_of a) (default_of b)
  | DSum _ alts => VT 0 (match alts with d' :: _ => default_of d' | [] => VU end)
  | DEofDefault d' => default_of d'
  | DMin _ d' => default_of d'
  | DUnit => VU
  end.

(* ---------- encoder -------------------------------------------------------- *)
Fixpoint enc (d : desc) (v : val) {struct d} : list Z :=
  match d with
  | DUInt n => match v with VN u => le_bytes n u | _ => [] end
  | DI64 => match v with VN i => le_bytes 8 (i mod 2 ^ 64) | _ => [] end
  | DFixed _ => match v with VB bs => bs | _ => [] end
  | DBytes | DStr => match v with VB bs => le_bytes 4 (Z.of_nat (length bs)) ++ bs | _ => [] end
  | DOpt d' => match v with
               | VO None => [0]
               | VO (Some x) => 1 :: enc d' x
               | _ => [] end
  | DVec32 d' => match v with
                 | VL l => le_bytes 4 (Z.of_nat (length l)) ++ flat_map (enc d') l
                 | _ => [] end
  | DVec64 d' => match v with
                 | VL l => le_bytes 8 (Z.of_nat (length l)) ++ flat_map (enc d') l
                 | _ => [] end
  | DPair a b => match v with VP x y => enc a x ++ enc b y | _ => [] end
  | DSum tb alts =>
    match v with
    | VT tag x =>
      match nth_error (map enc alts) tag with
      | Some f => le_bytes tb (Z.of_nat tag) ++ f x
      | None => []
      end
    | _ => []
    end
  | DEofDefault d' => enc d' v
  | DMin _ d' => enc d' v
  | DUnit => []
  end.

(* ---------- decoder -------------------------------------------------------- *)
Inductive res := ROk (v : val) (rest : list Z) | REof | RBad.

Definition read_uint (n : nat) (bs : list Z) : option (Z * list Z) :=
  match take_n n bs with Some (h, r) => Some (le_val h, r) | None => None end.

Fixpoint vec_loop (f : list Z -> res) (fuel : nat) (k : Z) (r : list Z) : res :=
  if k <=? 0 then ROk (VL []) r
  else match fuel with
       | O => REof
       | S fuel' =>
         match f r with
         | ROk x r' => match vec_loop f fuel' (k - 1) r' with
                       | ROk (VL l) r'' => ROk (VL (x :: l)) r''
                       | ROk _ _ => RBad
                       | e => e end
         | REof => REof
         | RBad => RBad
         end
       end.

Fixpoint dec (d : desc) (bs : list Z) {struct d} : res :=
  match d with
  | DUInt n => match read_uint n bs with Some (u, r) => ROk (VN u) r | None => REof end
  | DI64 => match read_uint 8 bs with Some (u, r) => ROk (VN (of_u64 u)) r | None => REof end
  | DFixed n => match take_n n bs with Some (h, r) => ROk (VB h) r | None => REof end
  | DBytes =>
    match read_uint 4 bs with
    | None => REof
    | Some (len, r) => match take_z len r with
                       | Some (h, r') => ROk (VB h) r'
                       | None => REof end
    end
  | DStr =>
    match read_uint 4 bs with
    | None => REof
    | Some (len, r) => match take_z len r with
                       | Some (h, r') => if utf8_valid h then ROk (VB h) r' else RBad
                       | None => REof end
    end
  | DOpt d' =>
    match bs with
    | [] => REof
    | f :: r => if f =? 0 then ROk (VO None) r
                else match dec d' r with
                     | ROk x r' => ROk (VO (Some x)) r'
                     | e => e end
    end
  | DVec32 d' =>
    match read_uint 4 bs with
    | None => REof
    | Some (len, r) =>
      (* speedy's pre-check: minimum_bytes_needed * length must fit in what is left *)
      if Z.of_nat (length r) <? Z.of_nat (min_bytes d') * len then REof
      else
        vec_loop (dec d') (S (length r)) len r
    end
  | DVec64 d' =>
    match read_uint 8 bs with
    | None => REof
    | Some (len, r) =>
        vec_loop (dec d') (S (length r)) len r
    end
  | DPair a b =>
    match dec a bs with
    | ROk x r => match dec b r with
                 | ROk y r' => ROk (VP x y) r'
                 | e => e end
    | e => e
    end
  | DSum tb alts =>
    match read_uint tb bs with
    | None => REof
    | Some (tag, r) =>
      match (if Z.of_nat (length alts) <=? tag then None else nth_error (map dec alts) (Z.to_nat tag)) with
      | None => RBad
      | Some f => match f r with
                  | ROk x r' => ROk (VT (Z.to_nat tag) x) r'
                  | e => e end
      end
    end
  | DEofDefault d' =>
    match dec d' bs with
    | REof => ROk (default_of d') []
    | x => x
    end
  | DMin _ d' => dec d' bs
  | DUnit => ROk VU bs
  end.

(* Readable::read_from_buffer: the buffer must hold minimum_bytes_needed();
   trailing bytes are ignored *)
Definition read_from_buffer (d : desc) (bs : list Z) : option val :=
  if (length bs <? min_bytes d)%nat then None
  else match dec d bs with ROk v _ => Some v | _ => None end.

(* ---------- well-typed values ---------------------------------------------- *)
Definition bytes_ok (bs : list Z) : bool := forallb (fun b => (0 <=? b) && (b <? 256)) bs.

Fixpoint wt (d : desc) (v : val) {struct d} : bool :=
  match d with
  | DUInt n => match v with VN u => (0 <=? u) && (u <? 256 ^ Z.of_nat n) | _ => false end
  | DI64 => match v with VN i => (- 2 ^ 63 <=? i) && (i <? 2 ^ 63) | _ => false end
  | DFixed n => match v with VB bs => bytes_ok bs && (length bs =? n)%nat | _ => false end
  | DBytes => match v with VB bs => bytes_ok bs && (Z.of_nat (length bs) <? 2 ^ 32) | _ => false end
  | DStr => match v with
            | VB bs => bytes_ok bs && (Z.of_nat (length bs) <? 2 ^ 32) && utf8_valid bs
            | _ => false end
  | DOpt d' => match v with VO None => true | VO (Some x) => wt d' x | _ => false end
  | DVec32 d' => match v with
                 | VL l => (Z.of_nat (length l) <? 2 ^ 32) && forallb (wt d') l
                 | _ => false end
  | DVec64 d' => match v with
                 | VL l => (Z.of_nat (length l) <? 2 ^ 64) && forallb (wt d') l
                 | _ => false end
  | DPair a b => match v with VP x y => wt a x && wt b y | _ => false end
  | DSum tb alts =>
    match v with
    | VT tag x =>
      (Z.of_nat tag <? 256 ^ Z.of_nat tb) &&
      match nth_error (map wt alts) tag with Some f => f x | None => false end
    | _ => false
    end
  | DEofDefault d' => wt d' v
  | DMin _ d' => wt d' v
  | DUnit => match v with VU => true | _ => false end
  end.

(* structural lower bound on the length of any encoding (ignores the
   minimum_bytes_needed overrides) *)
Fixpoint real_min (d : desc) : nat :=
  match d with
  | DUInt n => n
  | DI64 => 8
  | DFixed n => n
  | DBytes | DStr => 4
  | DOpt _ => 1
  | DVec32 _ => 4
  | DVec64 _ => 8
  | DPair a b => real_min a + real_min b
  | DSum tb alts => tb + min_list (map real_min alts)
  | DEofDefault d' => real_min d'
  | DMin _ d' => real_min d'
  | DUnit => 0
  end.

(* side conditions on a description: a declared minimum never exceeds the
   real one, and collection elements occupy at least one byte *)
Fixpoint desc_ok (d : desc) : bool :=
  match d with
  | DOpt d' | DEofDefault d' => desc_ok d'
  | DVec32 d' | DVec64 d' => (1 <=? real_min d')%nat && desc_ok d'
  | DPair a b => desc_ok a && desc_ok b
  | DSum tb alts => (tb <=? 8)%nat && forallb desc_ok alts
  | DMin n d' => (n <=? real_min d')%nat && desc_ok d'
  | DUInt n => (n <=? 8)%nat
  | _ => true
  end.
