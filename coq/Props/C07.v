(* C07 — Local transactions are all-or-nothing and get gap-free consecutive versions.
   Model: Model/LocalTx.v (the wrapper logic; the SQL engine is an oracle).
   Proofs: Proofs/LocalTxProofs.v (on top of C02's insert_db theorem and C08's tiling). *)
From Coq Require Import List ZArith Bool Lia.
From Corro Require Import Lib.Ivl Model.Chunk Model.Book Model.LocalTx Proofs.BookProofs Proofs.ChunkProofs Proofs.LocalTxProofs Gen.Consts.
Import ListNotations.
Open Scope Z_scope.

(* after ANY sequence of requests (successful, failing, changing nothing): the
   node's own bookkeeping has no gap and the acknowledged versions are exactly
   n, n-1, ..., 1 *)
Theorem C07_versions_gap_free : forall rs,
  Inv (l_bv (lrun rs)) (l_rows (lrun rs)) /\ needed (l_bv (lrun rs)) = [] /\
  l_acked (lrun rs) = countdown (Z.to_nat (max0 (maxv (l_bv (lrun rs))))).
Proof. exact lrun_inv. Qed.
Print Assumptions C07_versions_gap_free.

(* one request from any reachable state *)
Theorem C07_all_or_nothing : forall s r, LInv s ->
  LInv (fst (lstep s r)) /\
  ((r_ok r = false \/ r_recs r = []) ->
     fst (lstep s r) = s /\ o_version (snd (lstep s r)) = None /\
     o_same (snd (lstep s r)) = true /\ o_chunks (snd (lstep s r)) = []) /\
  (r_ok r = true -> r_recs r <> [] ->
     o_version (snd (lstep s r)) = Some (max0 (maxv (l_bv s)) + 1) /\
     max0 (maxv (l_bv (fst (lstep s r)))) = max0 (maxv (l_bv s)) + 1).
Proof. exact lstep_inv. Qed.
Print Assumptions C07_all_or_nothing.

(* the broadcast changesets tile 0..=last_seq and carry exactly the records *)
Theorem C07_broadcast_tiles : forall recs last,
  wf_input (map (fun r => mkChg (fst r) (snd r) (fst r)) recs) 0 last = true ->
  let cs := map (fun r => mkChg (fst r) (snd r) (fst r)) recs in
  let out := fst (run (repeat max_changes_byte_size (S (length cs))) (start_cursor cs 0 last)) in
  chunks_spec cs 0 last out.
Proof. exact broadcast_tiles. Qed.
Print Assumptions C07_broadcast_tiles.

Example C07_nonvacuous :
  let rs := [mkReq true [(0, 70); (1, 70)]; mkReq false [(0, 70)]; mkReq true []; mkReq true [(0, 70)]] in
  map (fun x => o_version (snd x)) (lruns lst_init rs) = [Some 1; None; None; Some 2].
Proof. vm_compute. reflexivity. Qed.
