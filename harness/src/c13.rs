//! C13: subscriptions across shutdown / kill and restart, on real agents.
use crate::{agentkit, c11, util::Toks};
use klukai_agent::{
    agent::{setup, AgentOptions},
    api::public::{api_v1_db_schema, api_v1_transactions, TimeoutParams},
};
use klukai_types::{
    agent::Agent,
    api::{QueryEvent, Statement},
    config::Config,
    pubsub::{normalize_sql, MatcherHandle},
    spawn::wait_for_all_pending_handles,
    tripwire::Tripwire,
    updates::{verif_hooks as vh, Handle},
};
use std::path::Path;
use std::sync::atomic::Ordering::SeqCst;
use std::time::{Duration, Instant};

const SQL: &str = "SELECT id, text FROM tests WHERE id > 0";

struct Live {
    agent: Agent,
    opts: AgentOptions,
    tw_tx: tokio::sync::mpsc::Sender<()>,
    worker: tokio::task::JoinHandle<()>,
    tripwire: Tripwire,
}

async fn start(dir: &Path) -> Live {
    let (tripwire, worker, tw_tx) = Tripwire::new_simple();
    let worker = tokio::spawn(async move { worker.await; });
    let config = Config::builder()
        .db_path(dir.join("corrosion.db").display().to_string())
        .gossip_addr("127.0.0.1:0".parse().unwrap())
        .api_addr("127.0.0.1:0".parse().unwrap())
        .build()
        .unwrap();
    let (agent, opts) = setup(config, tripwire.clone()).await.unwrap();
    let (status, _) = api_v1_db_schema(axum::Extension(agent.clone()), axum::Json(vec![agentkit::SCHEMA.to_owned()])).await;
    assert!(status.is_success(), "schema");
    Live { agent, opts, tw_tx, worker, tripwire }
}

fn copy_dir(src: &Path, dst: &Path) {
    std::fs::create_dir_all(dst).unwrap();
    for e in std::fs::read_dir(src).unwrap() {
        let e = e.unwrap();
        let p = e.path();
        let d = dst.join(e.file_name());
        if p.is_dir() { copy_dir(&p, &d); } else { let _ = std::fs::copy(&p, &d); }
    }
}

async fn write_rows(agent: &Agent, rx: &mut klukai_types::channel::CorroReceiver<klukai_types::broadcast::BroadcastInput>, from: i64, n: i64) {
    for i in from..from + n {
        let _ = api_v1_transactions(axum::Extension(agent.clone()), axum::extract::Query(TimeoutParams { timeout: None }),
            axum::extract::Json(vec![Statement::Simple(format!("INSERT INTO tests (id, text) VALUES ({i}, 'r{i}') ON CONFLICT (id) DO UPDATE SET text = text || 'x'"))])).await;
    }
    // broadcast_changes (where match_changes is called) runs in spawned tasks
    let t0 = Instant::now();
    let mut got = 0;
    while got < n && t0.elapsed() < Duration::from_secs(10) {
        match tokio::time::timeout(Duration::from_millis(100), rx.recv()).await {
            Ok(Some(_)) => got += 1,
            _ => {}
        }
    }
}

async fn flush(agent: &Agent, n: usize) {
    if n == 0 { return; }
    let ids: Vec<uuid::Uuid> = agent.subs_manager().get_handles().keys().cloned().collect();
    let _ = crate::util::flush_loops(&ids, 20).await;
}

async fn sub_state(handle: &MatcherHandle) -> (String, i64, i64) {
    let conn = handle.pool().get().await.unwrap();
    let mut rows: Vec<String> = conn
        .prepare("SELECT col_0, col_1 FROM query")
        .unwrap()
        .query_map([], |r| Ok(format!("{}={}", r.get::<_, i64>(0)?, r.get::<_, String>(1)?)))
        .unwrap()
        .map(|x| x.unwrap())
        .collect();
    rows.sort();
    let maxc: i64 = conn.query_row("SELECT COALESCE(MAX(id), 0) FROM changes", [], |r| r.get(0)).unwrap();
    let n: i64 = conn.query_row("SELECT COUNT(*) FROM changes", [], |r| r.get(0)).unwrap();
    (rows.join(";"), maxc, n)
}

async fn db_rows(agent: &Agent) -> String {
    let conn = agent.pool().read().await.unwrap();
    let mut rows: Vec<String> = conn
        .prepare(SQL)
        .unwrap()
        .query_map([], |r| Ok(format!("{}={}", r.get::<_, i64>(0)?, r.get::<_, String>(1)?)))
        .unwrap()
        .map(|x| x.unwrap())
        .collect();
    rows.sort();
    rows.join(";")
}

fn meta_state(dir: &Path, id: &str) -> String {
    let p = dir.join("subscriptions").join(id.replace('-', "")).join("sub.sqlite");
    if !p.exists() { return "absent".into(); }
    match rusqlite::Connection::open(&p) {
        Ok(c) => c.query_row("SELECT value FROM meta WHERE key = 'state'", [], |r| r.get::<_, String>(0)).unwrap_or("?".into()),
        Err(_) => "?".into(),
    }
}

/// case: restart <nphases> { <nops> { W n | F } <stop G|C|K|D> }
///   every phase runs its operations on the current node, stops it, copies the files and
///   restarts on the copy.  stop:
///     G  graceful shutdown (tripwire, drop_handles, pending handles awaited)
///     C  the subscription is cancelled because its listeners are gone, two more rows are written, then G
///     K  the files are copied as they are (kill -9)
///     D  the tripwire fires but the handles are not dropped yet (the matcher is draining), then kill
///     S  graceful, and two more rows are committed while the matcher is draining
/// obs per phase: before id/rows/maxc/db ; meta state found at the next start ; restored ids ;
///                directory present ; restored rows vs the query ; change ids
pub fn restart(t: &mut Toks) -> String {
    let rt = tokio::runtime::Builder::new_multi_thread().worker_threads(4).enable_all().build().unwrap();
    let nph = t.usize();
    let mut phases = vec![];
    for _ in 0..nph {
        let nops = t.usize();
        let mut ops = vec![];
        for _ in 0..nops {
            ops.push(match t.tok() { "W" => (0, t.i64()), "F" => (1, 0), x => panic!("bad op {x}") });
        }
        phases.push((ops, t.tok().to_string()));
    }
    vh::MANUAL.store(true, SeqCst);
    let out = rt.block_on(async move {
        let base = tempfile::tempdir().unwrap();
        let mut dir = base.path().join("n0");
        std::fs::create_dir_all(&dir).unwrap();
        let mut live = start(&dir).await;
        let sql = normalize_sql(SQL).unwrap();
        let subs_path = live.agent.config().db.subscriptions_path();
        let (handle, created) = live.agent.subs_manager().get_or_insert(&sql, &subs_path, &live.agent.schema().read(), live.agent.pool(), live.tripwire.clone()).unwrap();
        let mut evt_rx = created.unwrap().evt_rx;
        let id = handle.id().to_string();
        let t0 = Instant::now();
        loop {
            match tokio::time::timeout(Duration::from_millis(50), evt_rx.recv()).await {
                Ok(Some(QueryEvent::EndOfQuery { .. })) => break,
                Ok(Some(_)) => {}
                _ => if t0.elapsed() > Duration::from_secs(20) { break },
            }
        }
        tokio::spawn(async move { while evt_rx.recv().await.is_some() {} });
        let mut cur: Option<MatcherHandle> = Some(handle);
        let mut next = 1i64;
        let mut outs = vec![];
        for (pi, (ops, stop)) in phases.into_iter().enumerate() {
            let agent = live.agent.clone();
            let nsubs = if cur.is_some() { 1 } else { 0 };
            for (k, n) in ops {
                if k == 0 { write_rows(&agent, &mut live.opts.rx_bcast, next, n).await; next += n; } else { flush(&agent, nsubs).await; }
            }
            let before = match &cur {
                Some(h) => { let (r, m, _) = sub_state(h).await; format!("rows={} maxc={}", r, m) }
                None => "rows=- maxc=-".to_string(),
            };
            let mut line = format!("before {} db={}", before, db_rows(&agent).await);
            let ndir = base.path().join(format!("n{}", pi + 1));
            match stop.as_str() {
                "K" => copy_dir(&dir, &ndir),
                "D" => {
                    let _ = live.tw_tx.send(()).await;
                    let _ = tokio::time::timeout(Duration::from_secs(5), &mut live.worker).await;
                    tokio::time::sleep(Duration::from_millis(120)).await;
                    copy_dir(&dir, &ndir);
                }
                "S" => {
                    // graceful, with two transactions committed while the matcher is draining (after
                    // the tripwire, before the handles are dropped)
                    let _ = live.tw_tx.send(()).await;
                    let _ = tokio::time::timeout(Duration::from_secs(5), &mut live.worker).await;
                    tokio::time::sleep(Duration::from_millis(150)).await;
                    write_rows(&agent, &mut live.opts.rx_bcast, next, 2).await; next += 2;
                    tokio::time::sleep(Duration::from_millis(50)).await;
                    klukai_types::spawn::wait_for_pending_announcements().await;
                    agent.subs_manager().drop_handles().await;
                    cur = None;
                    let _ = tokio::time::timeout(Duration::from_secs(10), wait_for_all_pending_handles()).await;
                    copy_dir(&dir, &ndir);
                }
                "T" => {
                    // a local transaction commits and the node shuts down at once: its
                    // broadcast_changes task (which feeds the subscriptions) was only spawned
                    let _ = api_v1_transactions(axum::Extension(agent.clone()), axum::extract::Query(TimeoutParams { timeout: None }),
                        axum::extract::Json(vec![Statement::Simple(format!("INSERT INTO tests (id, text) VALUES ({next}, 'r{next}')"))])).await;
                    next += 1;
                    let _ = live.tw_tx.send(()).await;
                    let _ = tokio::time::timeout(Duration::from_secs(5), &mut live.worker).await;
                    klukai_types::spawn::wait_for_pending_announcements().await;
                    agent.subs_manager().drop_handles().await;
                    cur = None;
                    let _ = tokio::time::timeout(Duration::from_secs(10), wait_for_all_pending_handles()).await;
                    copy_dir(&dir, &ndir);
                }
                "G" | "C" => {
                    if stop == "C" {
                        if let Some(h) = &cur {
                            agent.subs_manager().remove(&h.id());     // process_sub_channel: listeners gone
                            h.cleanup().await;
                            tokio::time::sleep(Duration::from_millis(80)).await;
                        }
                        write_rows(&agent, &mut live.opts.rx_bcast, next, 2).await; next += 2;
                    }
                    let _ = live.tw_tx.send(()).await;
                    let _ = tokio::time::timeout(Duration::from_secs(5), &mut live.worker).await;
                    tokio::time::sleep(Duration::from_millis(50)).await;
                    klukai_types::spawn::wait_for_pending_announcements().await;
                    agent.subs_manager().drop_handles().await;
                    cur = None;
                    let _ = tokio::time::timeout(Duration::from_secs(10), wait_for_all_pending_handles()).await;
                    copy_dir(&dir, &ndir);
                }
                x => panic!("bad stop {x}"),
            }
            cur = None;
            line.push_str(&format!(" # start meta={}", meta_state(&ndir, &id)));
            dir = ndir;
            live = start(&dir).await;
            tokio::time::sleep(Duration::from_millis(300)).await;
            let handles = live.agent.subs_manager().get_handles();
            let restored: Vec<String> = handles.keys().map(|k| k.to_string()).collect();
            let dir_present = dir.join("subscriptions").join(id.replace('-', "")).exists();
            line.push_str(&format!(" restored={} same_id={} dir={}", restored.len(), if restored.iter().any(|r| *r == id) { 1 } else { 0 }, if dir_present { 1 } else { 0 }));
            if let Some(h) = handles.values().next() {
                let (rows, maxc, _) = sub_state(h).await;
                let conn = h.pool().get().await.unwrap();
                let ids: Vec<String> = conn.prepare("SELECT id FROM changes ORDER BY id").unwrap().query_map([], |r| r.get::<_, i64>(0)).unwrap().map(|x| x.unwrap().to_string()).collect();
                line.push_str(&format!(" rows={} maxc={} db={} ids={}", rows, maxc, db_rows(&live.agent).await, ids.join(",")));
                cur = Some(h.clone());
            }
            outs.push(line);
        }
        // one more batch on the last node: new changes continue the numbering
        if let Some(h) = &cur {
            let agent = live.agent.clone();
            write_rows(&agent, &mut live.opts.rx_bcast, next, 2).await;
            flush(&agent, 1).await;
            let (rows, maxc, _) = sub_state(h).await;
            let conn = h.pool().get().await.unwrap();
            let ids: Vec<String> = conn.prepare("SELECT id FROM changes ORDER BY id").unwrap().query_map([], |r| r.get::<_, i64>(0)).unwrap().map(|x| x.unwrap().to_string()).collect();
            outs.push(format!("final rows={} maxc={} db={} ids={}", rows, maxc, db_rows(&agent).await, ids.join(",")));
        }
        vh::MANUAL.store(false, SeqCst);
        outs.join(" ## ")
    });
    // agents that were shut down leave blocking tasks behind: do not wait for them
    rt.shutdown_background();
    out
}

/// case: inflight <nrows> <gap_ms>
///   a real subscription; the REAL change handler loop (handlers::handle_changes, as run_root
///   starts it) is given one remote version of <nrows> rows; <gap_ms> after the handler has
///   spawned the batch that applies it the node shuts down
///   gracefully the way command/agent.rs does (tripwire, the handler's handle awaited,
///   drop_handles, pending handles awaited); then the process is given time to finish what its
///   blocking sections were doing, the files are copied and a node is started on them.
/// obs: applied=<rows of the version in the database at the copy> meta=<state> restored=<0/1>
///      rows=<matview rows> db=<query rows>  (counts)
pub fn inflight(t: &mut Toks) -> String {
    use klukai_agent::agent::verif_hooks::handle_changes;
    use klukai_types::{actor::ActorId, agent::Bookie, broadcast::ChangeSource};
    let rt = tokio::runtime::Builder::new_multi_thread().worker_threads(4).enable_all().build().unwrap();
    let nrows = t.i64();
    let gap = t.u64();
    vh::MANUAL.store(false, SeqCst);
    let out = rt.block_on(async move {
        let base = tempfile::tempdir().unwrap();
        let dir = base.path().join("n0");
        std::fs::create_dir_all(&dir).unwrap();
        let mut live = start(&dir).await;
        let agent = live.agent.clone();
        let sql = normalize_sql(SQL).unwrap();
        let subs_path = agent.config().db.subscriptions_path();
        let (handle, created) = agent.subs_manager().get_or_insert(&sql, &subs_path, &agent.schema().read(), agent.pool(), live.tripwire.clone()).unwrap();
        let mut evt_rx = created.unwrap().evt_rx;
        let id = handle.id().to_string();
        let t0 = Instant::now();
        loop {
            match tokio::time::timeout(Duration::from_millis(50), evt_rx.recv()).await {
                Ok(Some(QueryEvent::EndOfQuery { .. })) => break,
                Ok(Some(_)) => {}
                _ => if t0.elapsed() > Duration::from_secs(20) { break },
            }
        }
        tokio::spawn(async move { while evt_rx.recv().await.is_some() {} });
        drop(handle);
        // the change handler loop, as run_root starts it
        let bookie = Bookie::new(Default::default());
        let (tx_dummy, rx_dummy) = klukai_types::channel::bounded(1, "dummy");
        let _ = tx_dummy;
        let rx_changes = std::mem::replace(&mut live.opts.rx_changes, rx_dummy);
        let changes_handle = tokio::spawn(handle_changes(agent.clone(), bookie.clone(), rx_changes, live.tripwire.clone()));
        let actor = ActorId(uuid::Uuid::from_u128(0xfeed));
        let changes: Vec<_> = (0..nrows).map(|i| agentkit::mk_change(actor, 1, i as u64, 1000 + i, "remote", 1, 1)).collect();
        let cv = agentkit::full(actor, 1, changes, 0, (nrows - 1) as u64, (nrows - 1) as u64, 1);
        agent.tx_changes().send((cv, ChangeSource::Sync)).await.unwrap();
        // wait until the handler has spawned the batch (it publishes received / queued / in flight)
        let t2 = Instant::now();
        while klukai_agent::agent::verif_hooks::VERIF_INGEST_STATE.load(SeqCst) & 0xffff == 0 && t2.elapsed() < Duration::from_secs(20) {
            tokio::time::sleep(Duration::from_millis(2)).await;
        }
        tokio::time::sleep(Duration::from_millis(gap)).await;
        // ---- graceful shutdown, command/agent.rs
        let _ = live.tw_tx.send(()).await;
        let _ = tokio::time::timeout(Duration::from_secs(5), &mut live.worker).await;
        let _ = tokio::time::timeout(Duration::from_secs(60), changes_handle).await;
        klukai_types::spawn::wait_for_pending_announcements().await;
                    agent.subs_manager().drop_handles().await;
        let _ = tokio::time::timeout(Duration::from_secs(10), wait_for_all_pending_handles()).await;
        // the runtime waits for blocking sections that are still running
        let mut last = -1i64;
        let mut stable = 0;
        let t1 = Instant::now();
        while stable < 10 && t1.elapsed() < Duration::from_secs(60) {
            let n: i64 = match agent.pool().read().await { Ok(c) => c.query_row("SELECT COUNT(*) FROM tests WHERE id >= 1000", [], |r| r.get(0)).unwrap_or(-1), Err(_) => -1 };
            if n == last { stable += 1 } else { stable = 0; last = n; }
            tokio::time::sleep(Duration::from_millis(50)).await;
        }
        let ndir = base.path().join("n1");
        copy_dir(&dir, &ndir);
        let meta = meta_state(&ndir, &id);
        let live2 = start(&ndir).await;
        tokio::time::sleep(Duration::from_millis(300)).await;
        let handles = live2.agent.subs_manager().get_handles();
        let mut line = format!("applied={} meta={} restored={}", last, meta, handles.len());
        if let Some(h) = handles.values().next() {
            let (rows, _, _) = sub_state(h).await;
            let nr = if rows.is_empty() { 0 } else { rows.split(';').count() };
            let db = db_rows(&live2.agent).await;
            let nd = if db.is_empty() { 0 } else { db.split(';').count() };
            line.push_str(&format!(" rows={} db={}", nr, nd));
        }
        line
    });
    rt.shutdown_background();
    out
}

/// case: realstop <kind 0|1|2> <nrows> <gap_ms>   (kind 2: a local transaction of <nrows> rows through the
///   node's HTTP API, acknowledged before the shutdown starts)
///   a REAL node (agent::start_with_config: API, gossip, change handler, buffered-apply loop, sync
///   loop ...) with a real subscription.  kind 0: one remote version of <nrows> rows is offered to
///   the change handler; kind 1: the same version arrives as two chunks, is buffered, and the
///   buffered-apply loop applies it.  <gap_ms> after the work was handed over the node shuts down
///   exactly as command/agent.rs does: tripwire, the handles returned by start_with_config
///   awaited, drop_handles, pending handles awaited.  Then the files are copied (after the
///   database stopped changing) and a node is started on them.
/// obs: applied=<rows in the database at the copy> meta= restored= rows=<matview> db=<query>
pub fn realstop(t: &mut Toks) -> String {
    use klukai_types::{actor::ActorId, broadcast::ChangeSource};
    let rt = tokio::runtime::Builder::new_multi_thread().worker_threads(4).enable_all().build().unwrap();
    let kind = t.u64();
    let nrows = t.i64();
    let gap = t.u64();
    vh::MANUAL.store(false, SeqCst);
    let out = rt.block_on(async move {
        let base = tempfile::tempdir().unwrap();
        let dir = base.path().join("n0");
        std::fs::create_dir_all(&dir).unwrap();
        let (tripwire, worker, tw_tx) = Tripwire::new_simple();
        let mut worker = tokio::spawn(async move { worker.await; });
        let config = Config::builder()
            .db_path(dir.join("corrosion.db").display().to_string())
            .gossip_addr("127.0.0.1:0".parse().unwrap())
            .api_addr("127.0.0.1:0".parse().unwrap())
            .build()
            .unwrap();
        let (agent, _bookie, _transport, handles) = klukai_agent::agent::start_with_config(config, tripwire.clone()).await.unwrap();
        let (status, _) = api_v1_db_schema(axum::Extension(agent.clone()), axum::Json(vec![agentkit::SCHEMA.to_owned()])).await;
        assert!(status.is_success(), "schema");
        let sql = normalize_sql(SQL).unwrap();
        let subs_path = agent.config().db.subscriptions_path();
        let (handle, created) = agent.subs_manager().get_or_insert(&sql, &subs_path, &agent.schema().read(), agent.pool(), tripwire.clone()).unwrap();
        let mut evt_rx = created.unwrap().evt_rx;
        let id = handle.id().to_string();
        let t0 = Instant::now();
        loop {
            match tokio::time::timeout(Duration::from_millis(50), evt_rx.recv()).await {
                Ok(Some(QueryEvent::EndOfQuery { .. })) => break,
                Ok(Some(_)) => {}
                _ => if t0.elapsed() > Duration::from_secs(20) { break },
            }
        }
        tokio::spawn(async move { while evt_rx.recv().await.is_some() {} });
        drop(handle);
        let actor = ActorId(uuid::Uuid::from_u128(0xfeed));
        let changes: Vec<_> = (0..nrows).map(|i| agentkit::mk_change(actor, 1, i as u64, 1000 + i, "remote", 1, 1)).collect();
        let last = (nrows - 1) as u64;
        if kind == 2 {
            // a local transaction through the node's real HTTP API, acknowledged, then shutdown
            let vals: Vec<String> = (0..nrows).map(|i| format!("({}, 'local')", 1000 + i)).collect();
            let body = format!(r#"["INSERT INTO tests (id, text) VALUES {}"]"#, vals.join(", "));
            let (st, _) = crate::c17::http(agent.api_addr(), "POST", "/v1/transactions", &[], &body).await;
            assert_eq!(st, 200, "transaction");
        } else if kind == 0 {
            let cv = agentkit::full(actor, 1, changes, 0, last, last, 1);
            agent.tx_changes().send((cv, ChangeSource::Sync)).await.unwrap();
        } else {
            let half = (nrows / 2) as usize;
            let c2 = agentkit::full(actor, 1, changes[half..].to_vec(), half as u64, last, last, 1);
            let c1 = agentkit::full(actor, 1, changes[..half].to_vec(), 0, half as u64 - 1, last, 1);
            agent.tx_changes().send((c2, ChangeSource::Sync)).await.unwrap();
            agent.tx_changes().send((c1, ChangeSource::Sync)).await.unwrap();
            // wait until both chunks are buffered: the apply loop has been told
            let t2 = Instant::now();
            loop {
                let n: i64 = match agent.pool().read().await { Ok(c) => c.query_row("SELECT COUNT(*) FROM __corro_buffered_changes", [], |r| r.get(0)).unwrap_or(0), Err(_) => 0 };
                let applied: i64 = match agent.pool().read().await { Ok(c) => c.query_row("SELECT COUNT(*) FROM tests WHERE id >= 1000", [], |r| r.get(0)).unwrap_or(0), Err(_) => 0 };
                if n >= nrows || applied > 0 || t2.elapsed() > Duration::from_secs(30) { break; }
                tokio::time::sleep(Duration::from_millis(2)).await;
            }
        }
        tokio::time::sleep(Duration::from_millis(gap)).await;
        // ---- graceful shutdown, command/agent.rs
        let _ = tw_tx.send(()).await;
        let _ = tokio::time::timeout(Duration::from_secs(5), &mut worker).await;
        for h in handles {
            let _ = tokio::time::timeout(Duration::from_secs(120), h).await;
        }
        klukai_types::spawn::wait_for_pending_announcements().await;
                    agent.subs_manager().drop_handles().await;
        let _ = tokio::time::timeout(Duration::from_secs(20), wait_for_all_pending_handles()).await;
        // the runtime waits for blocking sections that are still running
        let mut lastn = -1i64;
        let mut stable = 0;
        let t1 = Instant::now();
        while stable < 10 && t1.elapsed() < Duration::from_secs(60) {
            let n: i64 = match agent.pool().read().await { Ok(c) => c.query_row("SELECT COUNT(*) FROM tests WHERE id >= 1000", [], |r| r.get(0)).unwrap_or(-1), Err(_) => -1 };
            if n == lastn { stable += 1 } else { stable = 0; lastn = n; }
            tokio::time::sleep(Duration::from_millis(50)).await;
        }
        let ndir = base.path().join("n1");
        copy_dir(&dir, &ndir);
        let meta = meta_state(&ndir, &id);
        let live2 = start(&ndir).await;
        tokio::time::sleep(Duration::from_millis(300)).await;
        let handles2 = live2.agent.subs_manager().get_handles();
        let mut line = format!("applied={} meta={} restored={}", lastn, meta, handles2.len());
        if let Some(h) = handles2.values().next() {
            let (rows, _, _) = sub_state(h).await;
            let nr = if rows.is_empty() { 0 } else { rows.split(';').count() };
            let db = db_rows(&live2.agent).await;
            let nd = if db.is_empty() { 0 } else { db.split(';').count() };
            line.push_str(&format!(" rows={} db={}", nr, nd));
        }
        line
    });
    rt.shutdown_background();
    out
}
