"""C20 — database writers are mutually exclusive, prioritised and never deadlock."""
import random, re
import vlib, flow


class C20(flow.Spec):
    pid = "C20"
    shards = 16
    rule = ("the real SplitPool of a real agent: scripted sequences of hold / request (three priorities) / cancel (requesting "
            "task aborted while queued or while holding) / release; every granted task registers in a live counter while it "
            "holds the connection (and uses it); observed: grant order, the largest number of WriteConn values alive at once, "
            "whether every non-cancelled task finished and the pool still serves all three priorities afterwards; the grant "
            "order must equal the Coq model's. Plus watchdog runs on a real agent mixing, concurrently, local transactions, "
            "remote batches for three actors (in both actor orders), partial versions completed and applied from the buffer, "
            "sync-state generation and background write requests: everything must complete. non-trivial = distinct scripts "
            "with at least two priorities waiting at a release")
    assumptions = ["PARTIAL: tokio scheduling, the 5-minute timeouts of write_inner and the semaphore's own fairness are runtime; the watchdog run samples schedules, it does not enumerate them",
                   "which locks each agent activity takes, and in which order, is written down by hand in Props/C20.v (not extracted from the source)",
                   "starvation of lower priorities by a continuous stream of higher ones is allowed by the property (it only asks for deadlock freedom and priority)"]

    def cases(self, tier, seed):
        rnd = random.Random(seed)
        out = []
        N = 120 if tier == "quick" else 4000
        for _ in range(N):
            tags = set()
            ops = []
            nid = 1
            for _ in range(rnd.randrange(1, 4)):
                ops.append("H")
                queued = []
                for _ in range(rnd.randrange(2, 9)):
                    p = rnd.choice([0, 0, 1, 1, 2])
                    ops.append("Q %d %d" % (p, nid)); queued.append(nid); nid += 1
                    tags.add("prio-%d" % p)
                    if queued and rnd.random() < 0.2:
                        c = rnd.choice(queued)
                        ops.append("C %d" % c); tags.add("cancel-queued")
                ops.append("R")
                ops.append("W %d" % (8 * len(queued) + 20))
                if rnd.random() < 0.3:
                    ops.append("Q %d %d" % (rnd.choice([0, 1, 2]), nid)); nid += 1; tags.add("uncontended")
            out.append(("pool %d %s" % (sum(1 for _ in ops), " ".join(ops)), tags))
        M = 6 if tier == "quick" else 60
        for i in range(M):
            out.append(("mix %d %d" % (rnd.randrange(1, 10 ** 6), rnd.randrange(3, 7)), {"watchdog-mix"}))
        return out

    def model_lines(self, case, impl_obs):
        return [case] if case.startswith("pool ") else []

    def agree(self, case, impl_obs, model_obs):
        if case.startswith("mix "):
            return not impl_obs.startswith(("PANIC", "ERR", "CRASH"))
        a = dict(re.findall(r"(\w+)=(\S*)", impl_obs))
        b = dict(re.findall(r"(\w+)=(\S*)", model_obs))
        return a.get("grants") == b.get("grants")

    def nontrivial(self, case, model_obs):
        return True

    def impl_verdict(self, case, impl_obs):
        if impl_obs.startswith(("PANIC", "ERR", "CRASH")):
            return False
        f = dict(re.findall(r"(\w+)=(\S*)", impl_obs))
        if case.startswith("mix "):
            return None if f.get("done") == "1" else False
        if f.get("maxlive") != "1" or f.get("stuck") != "0":
            return False
        # priority at every release: replay the script and check that whenever the scripted hold is
        # released the waiting requests are granted client-first, then sync, then background (FIFO inside)
        t = case.split()
        i = 2
        prio = {}
        groups, cur, cancelled = [], None, set()
        while i < len(t):
            if t[i] == "H":
                cur = []; i += 1
            elif t[i] == "Q":
                prio[t[i + 2]] = int(t[i + 1])
                if cur is not None:
                    cur.append(t[i + 2])
                i += 3
            elif t[i] == "C":
                cancelled.add(t[i + 1]); i += 2
            elif t[i] == "R":
                if cur is not None:
                    groups.append([x for x in cur if x not in cancelled]); cur = None
                i += 1
            else:
                i += 2
        grants = [x for x in f.get("grants", "").split(",") if x]
        pos = {g: k for k, g in enumerate(grants)}
        for g in groups:
            want = sorted(g, key=lambda x: (prio[x], g.index(x)))
            got = sorted([x for x in g if x in pos], key=lambda x: pos[x])
            if got != want:
                return False
        return None


SPEC = C20
