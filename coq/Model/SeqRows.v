(* Model of the __corro_seq_bookkeeping maintenance in
   crates/klukai-agent/src/agent/util.rs:process_incomplete_version
   (for one (actor, version)): DELETE .. RETURNING of every row overlapping or
   adjacent to the incoming seq range, union, the `len = 1` failsafe, INSERT. *)
From Coq Require Import List ZArith Bool.
From Corro Require Import Lib.Ivl Gen.SeqSql.
Import ListNotations.
Open Scope Z_scope.

(* the WHERE clause of the DELETE: GENERATED from the SQL text in the source by
   tools/sql2coq.py (Gen/SeqSql.v; row = start_seq, end_seq; parameters :start, :end;
   a bare `end_seq` is SQL truthiness) *)
Definition seq_del_pred (rs re s e : Z) : bool := seq_del_pred_src rs re s e.

(* rows of one (site_id, db_version): (start_seq, end_seq, last_seq), kept
   sorted by start_seq (PRIMARY KEY (site_id, db_version, start_seq)) *)
Definition srow := (Z * Z * Z)%type.

Fixpoint srow_insert (r : srow) (rs : list srow) : option (list srow) :=
  match rs with
  | [] => Some [r]
  | x :: t =>
    if fst (fst r) =? fst (fst x) then None
    else if fst (fst r) <? fst (fst x) then Some (r :: x :: t)
    else match srow_insert r t with None => None | Some t' => Some (x :: t') end
  end.

Inductive inc_result :=
| IncOk (rows : list srow) (seqs : iset)     (* new rows, the partial's seqs *)
| IncFailsafe                                 (* new_ranges.len() > 1 *)
| IncConflict.                                (* INSERT hit the primary key *)

Definition incomplete_rows (rows : list srow) (s e last : Z) : inc_result :=
  let hit := fun r : srow => seq_del_pred (fst (fst r)) (snd (fst r)) s e in
  let deleted := filter hit rows in
  let kept := filter (fun r => negb (hit r)) rows in
  let new_ranges := ins s e (ins_all (map fst deleted) []) in
  match new_ranges with
  | [(a, b)] =>
    match srow_insert (a, b, last) kept with
    | Some rows' => IncOk rows' new_ranges
    | None => IncConflict
    end
  | _ => IncFailsafe
  end.
