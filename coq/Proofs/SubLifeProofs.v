From Coq Require Import List Bool.
From Corro Require Import Model.SubLife.
Import ListNotations.

Definition is_completed (m : meta) : bool := match m with MCompleted => true | _ => false end.

(* invariant of every reachable state, for either behaviour of a plain cancellation *)
Definition linv_b (s : sub) : bool :=
  (* 'completed' is only ever written over a matview that is complete, by a matcher that then stops *)
  (negb (is_completed (s_meta s)) ||
     (s_synced s && negb (s_pending s) && negb (s_loop s) && negb (s_fed s) && negb (s_draining s))) &&
  (* a running or draining matcher has missed nothing *)
  (negb (s_loop s) || s_synced s) &&
  (negb (s_draining s) || (s_synced s && negb (s_loop s))).

(* The environment's side: a transaction only commits while the subscription is fed, or when
   the matcher can no longer complete (no commit between the removal of a handle and its
   cancellation, none after drop_handles during shutdown, none between a restart and the
   restoration of the subscriptions). *)
Definition env_ok_b (s : sub) (o : lop) : bool :=
  match o with
  | LWrite => s_fed s || negb (s_loop s || s_draining s || is_completed (s_meta s))
  | _ => true
  end.

Lemma lstep_inv : forall cr s o, linv_b s = true -> env_ok_b s o = true -> linv_b (lstep cr s o) = true.
Proof.
  intros cr [m sy pe fe lo dr] o.
  destruct cr, m, sy, pe, fe, lo, dr; destruct o as [| | | |[|]| | | |];
    cbn; intros H1 H2; try discriminate; reflexivity.
Qed.

Fixpoint env_run (cr : bool) (s : sub) (ops : list lop) : bool :=
  match ops with
  | [] => true
  | o :: t => env_ok_b s o && env_run cr (lstep cr s o) t
  end.

Theorem lrun_inv : forall cr ops s, linv_b s = true -> env_run cr s ops = true -> linv_b (lrun cr ops s) = true.
Proof.
  intros cr. induction ops as [|o t IH]; intros s Hi He; cbn in *; [exact Hi|].
  apply andb_true_iff in He as [H1 H2]. apply IH; [apply lstep_inv; assumption|exact H2].
Qed.

(* whatever the history and wherever the process stops: what is restored at the next start
   is a subscription whose rows are its query's result, with nothing pending *)
Theorem restore_sound : forall cr ops, env_run cr s_init ops = true -> restore_is_sound (lrun cr ops s_init) = true.
Proof.
  intros cr ops He. pose proof (lrun_inv cr ops s_init eq_refl He) as H.
  unfold restore_is_sound, restored_at_start. unfold linv_b in H.
  destruct (lrun cr ops s_init) as [m sy pe fe lo dr]. cbn in *.
  destruct m; cbn in *; try reflexivity.
  destruct sy, pe; cbn in *; try reflexivity; discriminate.
Qed.

(* a process that dies while the matcher is alive or draining leaves a state that is NOT restored *)
Theorem kill_not_restored : forall cr ops, env_run cr s_init ops = true ->
  let s := lrun cr ops s_init in (s_loop s = true \/ s_draining s = true) -> restored_at_start s = false.
Proof.
  intros cr ops He s Hs. pose proof (lrun_inv cr ops s_init eq_refl He) as H. fold s in H.
  unfold restored_at_start, linv_b in *. destruct s as [m sy pe fe lo dr]. cbn in *.
  destruct m; try reflexivity.
  destruct sy, pe, fe, lo, dr; cbn in *; try discriminate; destruct Hs; discriminate.
Qed.
