(* Model of crates/klukai-types/src/members.rs (Members::{add_member,
   remove_member, add_rtt, recalculate_rings, ring0}).
   Actors, addresses and cluster ids are integers; identity timestamps are the
   Duration image the code compares (to_duration()). BTreeMaps are sorted
   association lists. *)
From Coq Require Import List ZArith Bool.
From Corro Require Import Gen.Consts.
Import ListNotations.
Open Scope Z_scope.

Section Amap.
  Context {V : Type}.
  Fixpoint mget (k : Z) (m : list (Z * V)) : option V :=
    match m with
    | [] => None
    | (k', v) :: t => if k =? k' then Some v else mget k t
    end.
  Fixpoint mset (k : Z) (v : V) (m : list (Z * V)) : list (Z * V) :=
    match m with
    | [] => [(k, v)]
    | (k', v') :: t =>
      if k =? k' then (k, v) :: t
      else if k <? k' then (k, v) :: (k', v') :: t
      else (k', v') :: mset k v t
    end.
  Fixpoint mdel (k : Z) (m : list (Z * V)) : list (Z * V) :=
    match m with
    | [] => []
    | (k', v') :: t => if k =? k' then mdel k t else (k', v') :: mdel k t
    end.
End Amap.

Record mstate := mkMstate { m_addr : Z; m_ts : Z; m_cluster : Z; m_ring : option Z }.

Record members := mkMembers {
  states : list (Z * mstate);      (* actor -> state *)
  by_addr : list (Z * Z);          (* addr -> actor *)
  rtts : list (Z * list Z) }.      (* addr -> recent samples, newest first *)

Definition members_empty : members := mkMembers [] [] [].

Record actor := mkActor { a_id : Z; a_addr : Z; a_ts : Z; a_cluster : Z }.

Inductive added := NewMember | Updated | Ignored.

Fixpoint bucket_of (avg : Z) (bs : list (Z * Z)) (idx : Z) : option Z :=
  match bs with
  | [] => None
  | (lo, hi) :: t => if (lo <=? avg) && (avg <? hi) then Some idx else bucket_of avg t (idx + 1)
  end.

Definition sumz (l : list Z) : Z := fold_left Z.add l 0.

Definition recalculate_rings (m : members) (addr : Z) : members :=
  match mget addr (by_addr m) with
  | None => m
  | Some aid =>
    match mget addr (rtts m) with
    | None => m
    | Some [] => m
    | Some buf =>
      let avg := sumz buf / Z.of_nat (length buf) in
      match mget aid (states m) with
      | None => m
      | Some st =>
        match bucket_of avg ring_buckets 0 with
        | None => m
        | Some r => mkMembers (mset aid (mkMstate (m_addr st) (m_ts st) (m_cluster st) (Some r)) (states m))
                              (by_addr m) (rtts m)
        end
      end
    end
  end.

Definition add_member (m : members) (a : actor) : members * added :=
  match mget (a_id a) (states m) with
  | None =>
    let m1 := mkMembers (mset (a_id a) (mkMstate (a_addr a) (a_ts a) (a_cluster a) None) (states m))
                        (mset (a_addr a) (a_id a) (by_addr m)) (rtts m) in
    (recalculate_rings m1 (a_addr a), NewMember)
  | Some st =>
    if a_ts a <? m_ts st then (m, Ignored)
    else if m_ts st <? a_ts a then
      let moved := negb (m_addr st =? a_addr a) in
      let st' := mkMstate (a_addr a) (a_ts a) (a_cluster a) (if moved then None else m_ring st) in
      let states' := mset (a_id a) st' (states m) in
      if moved then
        let ba := match mget (m_addr st) (by_addr m) with
                  | Some x => if x =? a_id a then mdel (m_addr st) (by_addr m) else by_addr m
                  | None => by_addr m
                  end in
        (recalculate_rings (mkMembers states' (mset (a_addr a) (a_id a) ba) (rtts m)) (a_addr a), Updated)
      else (mkMembers states' (by_addr m) (rtts m), Updated)
    else (m, Ignored)
  end.

Definition remove_member (m : members) (a : actor) : members * bool :=
  match mget (a_id a) (states m) with
  | None => (m, false)
  | Some st =>
    if m_ts st <=? a_ts a then
      let ba := match mget (m_addr st) (by_addr m) with
                | Some x => if x =? a_id a then mdel (m_addr st) (by_addr m) else by_addr m
                | None => by_addr m
                end in
      (mkMembers (mdel (a_id a) (states m)) ba (rtts m), true)
    else (m, false)
  end.

Fixpoint take (n : nat) (l : list Z) : list Z :=
  match n, l with
  | O, _ => []
  | _, [] => []
  | S n', x :: t => x :: take n' t
  end.

Definition add_rtt (m : members) (addr ms : Z) : members :=
  let old := match mget addr (rtts m) with Some b => b | None => [] end in
  let buf := take (Z.to_nat rtt_ring_capacity) (ms :: old) in
  recalculate_rings (mkMembers (states m) (by_addr m) (mset addr buf (rtts m))) addr.

Definition ring0 (m : members) (cluster : Z) : list Z :=
  flat_map (fun kv => match m_ring (snd kv) with
                      | Some r => if (m_cluster (snd kv) =? cluster) && (r =? 0) then [m_addr (snd kv)] else []
                      | None => [] end) (states m).

Inductive mop := Up (a : actor) | Down (a : actor) | Rtt (addr ms : Z).

Definition mstep (m : members) (op : mop) : members :=
  match op with
  | Up a => fst (add_member m a)
  | Down a => fst (remove_member m a)
  | Rtt addr ms => add_rtt m addr ms
  end.

Definition mrun (ops : list mop) : members := fold_left mstep ops members_empty.

(* ---------- specification: fold by newest identity --------------------------- *)
(* per actor: the newest identity notified so far and whether the last
   notification about it was an 'up' *)
Record srec := mkSrec { s_ts : Z; s_up : bool; s_addr : Z; s_cluster : Z }.

Definition spec_step (s : list (Z * srec)) (op : mop) : list (Z * srec) :=
  match op with
  | Up a =>
    match mget (a_id a) s with
    | None => mset (a_id a) (mkSrec (a_ts a) true (a_addr a) (a_cluster a)) s
    | Some r =>
      if s_ts r <? a_ts a then mset (a_id a) (mkSrec (a_ts a) true (a_addr a) (a_cluster a)) s
      else if s_ts r =? a_ts a then mset (a_id a) (mkSrec (s_ts r) true (s_addr r) (s_cluster r)) s
      else s
    end
  | Down a =>
    match mget (a_id a) s with
    | None => mset (a_id a) (mkSrec (a_ts a) false (a_addr a) (a_cluster a)) s
    | Some r =>
      if s_ts r <=? a_ts a then mset (a_id a) (mkSrec (a_ts a) false (a_addr a) (a_cluster a)) s
      else s
    end
  | Rtt _ _ => s
  end.

Definition spec_run (ops : list mop) : list (Z * srec) := fold_left spec_step ops [].

(* the SWIM constraint of the property: an 'up' never carries an identity older
   than one already reported down; and an identity (actor, ts) has one address
   and one cluster *)
Definition op_allowed (s : list (Z * srec)) (op : mop) : bool :=
  match op with
  | Up a =>
    match mget (a_id a) s with
    | None => true
    | Some r =>
      (if s_up r then true else s_ts r <=? a_ts a) &&
      (if s_ts r =? a_ts a then (s_addr r =? a_addr a) && (s_cluster r =? a_cluster a) else true)
    end
  | _ => true
  end.

Fixpoint ops_allowed (s : list (Z * srec)) (ops : list mop) : bool :=
  match ops with
  | [] => true
  | op :: t => op_allowed s op && ops_allowed (spec_step s op) t
  end.

(* decidable statement of the first half of C18 for one actor *)
Definition view_matches (m : members) (s : list (Z * srec)) (a : Z) : bool :=
  match mget a s, mget a (states m) with
  | None, None => true
  | Some r, None => negb (s_up r)
  | Some r, Some st =>
    s_up r && (m_ts st =? s_ts r) && (m_addr st =? s_addr r) && (m_cluster st =? s_cluster r)
  | None, Some _ => false
  end.

(* decidable form of "by_addr points to present members at that address" *)
Definition ba_inv_b (m : members) : bool :=
  forallb (fun kv => match mget (snd kv) (states m) with
                     | Some st => m_addr st =? fst kv
                     | None => false end) (by_addr m).

Fixpoint zlist_eqb (x y : list Z) : bool :=
  match x, y with
  | [], [] => true
  | a :: x', b :: y' => (a =? b) && zlist_eqb x' y'
  | _, _ => false
  end.
